"""Entry point: /verif/bin/check <ID> --tier quick|thorough [--replay FILE]"""
import os
import sys

HERE = os.path.dirname(os.path.abspath(__file__))
VERIF = os.path.dirname(HERE)
if os.environ.get("PYTHONHASHSEED") is None and not os.environ.get("DSIM_NO_REEXEC"):
    env = dict(os.environ, PYTHONHASHSEED="0")
    os.execve(sys.executable, [sys.executable, "-B"] + sys.argv, env)
sys.path.insert(0, VERIF)
sys.dont_write_bytecode = True
from dsim import runner  # noqa: E402

if __name__ == "__main__":
    try:
        rc = runner.main(sys.argv[1:])
    except SystemExit:
        raise
    except BaseException:
        import traceback

        traceback.print_exc()
        print("HARNESS-ERROR: unexpected exception in the driver")
        rc = 2
    sys.exit(rc)
