"""Development aid / thorough self-test: N run indices, each executed (a) in order, (b) in reverse
order in the same process, (c) in fresh interpreters under other PYTHONHASHSEEDs, split over
different worker counts; all event-log digests must agree.
usage: tools/determinism.py <PROP> [N] [tier]"""
import json, os, subprocess, sys, concurrent.futures as cf
VERIF = os.path.dirname(os.path.dirname(os.path.abspath(__file__)))
prop = sys.argv[1]; N = int(sys.argv[2]) if len(sys.argv) > 2 else 200; tier = sys.argv[3] if len(sys.argv) > 3 else "quick"
idxs = list(range(2_000_000, 2_000_000 + N))
def fresh(chunk, hashseed):
    env = dict(os.environ, PYTHONHASHSEED=str(hashseed), DSIM_NO_REEXEC="1")
    p = subprocess.run([sys.executable, "-B", os.path.join(VERIF, "bin", "check.py"), prop, "--tier", tier, "--digests", ",".join(map(str, chunk))],
                       env=env, capture_output=True, text=True, timeout=3000)
    try:
        return json.loads(p.stdout.strip().splitlines()[-1])
    except Exception:
        raise SystemExit("fresh interpreter failed: " + p.stderr[-2000:])
def split(n):
    k = (len(idxs) + n - 1) // n
    return [idxs[i:i + k] for i in range(0, len(idxs), k)]
results = []
with cf.ThreadPoolExecutor(16) as ex:
    futs = []
    for workers, hs, rev in ((1, 0, False), (5, 12345, True), (16, 99, False)):
        for ch in split(workers):
            futs.append((workers, ex.submit(fresh, list(reversed(ch)) if rev else ch, hs)))
    by = {}
    for workers, f in futs:
        by.setdefault(workers, {}).update(f.result())
ref = by[1]
bad = [i for i in ref if not (ref[i] == by[5].get(i) == by[16].get(i)) or ref[i].startswith("ERR")]
print("property=%s indices=%d configurations=3 (1 proc hashseed 0 in order; 5 procs hashseed 12345 reversed; 16 procs hashseed 99) diverging=%d %s" % (prop, N, len(bad), bad[:5]))
sys.exit(1 if bad else 0)
