#!/bin/sh
# Development aid: run a stored seeded change (seeded/<id>/patch.diff, demo.py) against the CURRENT /repo:
# demo must fail with the patch and pass without; then the property's quick check must exit 1.
# usage: tools/check_seeded.sh <id> <PROP> [budget]
ID=$1; PROP=$2; BUDGET=${3:-40}
cd "$(dirname "$0")/.."; V=$(pwd)
D=$(mktemp -d /var/tmp/rich-verif-XXXXXX)
cp -r /repo/rich "$D/rich"; cp "seeded/$ID/demo.py" "$D/demo.py"
(cd "$D" && timeout 300 /venv/bin/python demo.py >/dev/null 2>&1); RC0=$?
(cd "$D" && patch -s -p1 < "$V/seeded/$ID/patch.diff") || { echo "PATCH-FAILED $ID"; rm -rf "$D"; exit 2; }
(cd "$D" && timeout 300 /venv/bin/python demo.py >/dev/null 2>&1); RC1=$?
DSIM_REPO="$D" timeout 900 bin/check "$PROP" --tier quick --budget "$BUDGET" --no-selftest --no-evidence --no-minimise > "$D/out.txt" 2>&1; RC=$?
SIG=$(grep -A1 "^VIOLATION" "$D/out.txt" | grep -o "sig=[^ ]*" | tr '\n' ' ')
RUNS=$(grep -o "runs=[0-9]*" "$D/out.txt" | tail -1)
echo "$ID: demo without=$RC0 with=$RC1; check $PROP rc=$RC $SIG $RUNS"
rm -rf "$D"
