#!/bin/sh
# Development aid: a behaviour-preserving refactor (patch file) must NOT make any check raise an alarm.
# usage: tools/check_benign.sh <patch.diff> [budget]
PATCH=$1; BUDGET=${2:-30}
cd "$(dirname "$0")/.."
D=$(mktemp -d /var/tmp/rich-verif-XXXXXX)
cp -r /repo/rich "$D/rich"
(cd "$D" && patch -s -p1 < "$PATCH") || { echo "PATCH-FAILED $PATCH"; rm -rf "$D"; exit 2; }
for P in C10 C11 C12 C15 C19 C20; do
  DSIM_REPO="$D" timeout 900 bin/check $P --tier quick --budget "$BUDGET" --no-selftest --no-evidence --no-minimise > "$D/out.txt" 2>&1; RC=$?
  echo "$(basename $(dirname $PATCH)) $P rc=$RC $(grep -A1 '^VIOLATION\|HARNESS' "$D/out.txt" | grep -o 'sig=[^ ]*\|HARNESS-ERROR[^\n]*' | head -3 | tr '\n' ' ') $(grep -o 'runs=[0-9]*' "$D/out.txt" | tail -1)"
  [ "$RC" != 0 ] && grep -A3 "^VIOLATION\|HARNESS" "$D/out.txt" | head -8 | cut -c1-400
done
rm -rf "$D"
