"""Development aid: run a replay file and print every write, then the violations."""
import json, sys, os
sys.path.insert(0, os.path.dirname(os.path.dirname(os.path.abspath(__file__))))
from dsim import harness, runner
doc = json.load(open(sys.argv[1]))
check = runner.load_check(doc["property"])
print("case:", json.dumps(doc["case"])[:3000])
print("schedule:", doc["schedule"][:40], "violation:", doc["violation"]["sig"])
spec = {"kind": "script", "schedule": doc["schedule"], "lenient": False}
res = harness.execute(check, doc["case"], spec, doc["seed"], want_log=True)
for rec in res.get("log", []):
    if rec[2] in ("write", "thread-died", "timer", "thread-start") or "-v" in sys.argv:
        print(rec)
print("harness_error:", res["harness_error"])
for v in res["violations"]:
    print("VIOL", v["sig"], v["msg"][:1500])
