#!/bin/sh
# Development aid: confirm a sub-agent's seeded change in its worktree, store it under seeded/<id>/,
# and run the property's quick check against a patched scratch copy.
# usage: tools/confirm_seeded.sh <worktree> <PROP> <id> [budget]
WT=$1; PROP=$2; ID=$3; BUDGET=${4:-40}
cd "$(dirname "$0")/.."
V=$(pwd)
[ -f "$WT/patch.diff" ] && [ -f "$WT/demo.py" ] || { echo "missing patch.diff/demo.py in $WT"; exit 2; }
cd "$WT"
git diff -- rich > patch.diff
timeout 300 /venv/bin/python demo.py > /tmp/demo_with.txt 2>&1; RC_WITH=$?
# (no `git stash`: the stash is shared by all worktrees of the repository)
git checkout -q -- rich
timeout 300 /venv/bin/python demo.py > /tmp/demo_without.txt 2>&1; RC_WITHOUT=$?
git apply patch.diff
TESTS=$(timeout 900 /venv/bin/python -m pytest -q -p no:cacheprovider tests 2>&1 | tail -1)
echo "demo with change: rc=$RC_WITH; without: rc=$RC_WITHOUT; tests: $TESTS"
mkdir -p "$V/seeded/$ID"
cp patch.diff demo.py "$V/seeded/$ID/"
cd "$V"
D=$(mktemp -d /var/tmp/rich-verif-XXXXXX)
cp -r /repo/rich "$D/rich"
(cd "$D" && patch -s -p1 < "$V/seeded/$ID/patch.diff") || { echo PATCH-FAILED; rm -rf "$D"; exit 2; }
DSIM_REPO="$D" timeout 900 bin/check "$PROP" --tier quick --budget "$BUDGET" --no-selftest --no-evidence > "$D/out.txt" 2>&1
RC=$?
SIG=$(grep -A1 "^VIOLATION" "$D/out.txt" | grep -o "sig=[^ ]*" | tr '\n' ' ')
RUNS=$(grep -o "runs=[0-9]*" "$D/out.txt" | tail -1)
echo "check $PROP against the changed tree: rc=$RC $SIG $RUNS"
grep -A1 "^VIOLATION" "$D/out.txt" | head -4 | cut -c1-400
rm -rf "$D"
echo "{\"demo_rc_with_change\": $RC_WITH, \"demo_rc_without_change\": $RC_WITHOUT, \"tests\": \"$TESTS\", \"check_rc\": $RC, \"check_signatures\": \"$SIG\", \"check_runs\": \"$RUNS\", \"check_budget_s\": $BUDGET}" > "$V/seeded/$ID/confirm.json"
