"""Development aid: build /verif/mutants/<name>.patch from an (old, new) text edit of a file in /repo."""
import subprocess, sys, os, tempfile, shutil
def make(name, relpath, old, new, count=1):
    src = open(os.path.join("/repo", relpath)).read()
    assert src.count(old) == count, (name, src.count(old))
    d = tempfile.mkdtemp(dir="/var/tmp")
    try:
        a = os.path.join(d, "a", relpath); b = os.path.join(d, "b", relpath)
        os.makedirs(os.path.dirname(a)); os.makedirs(os.path.dirname(b))
        open(a, "w").write(src); open(b, "w").write(src.replace(old, new))
        p = subprocess.run(["diff", "-u", "a/" + relpath, "b/" + relpath], cwd=d, capture_output=True, text=True)
        open(os.path.join("/verif/mutants", name + ".patch"), "w").write(p.stdout)
    finally:
        shutil.rmtree(d)
