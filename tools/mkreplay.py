"""Development aid: turn a hand-written case (JSON file or literal) into a stored replay file.
usage: tools/mkreplay.py <PROP> <sig> <case.json|-> <out.json>   (case on stdin with -)"""
import json, os, sys, time
sys.path.insert(0, os.path.dirname(os.path.dirname(os.path.abspath(__file__))))
from dsim import harness, runner
prop, sig, src, out = sys.argv[1:5]
case = json.load(sys.stdin if src == "-" else open(src))
check = runner.load_check(prop)
found = harness.find_schedule(check, case, sig, 12345, 300, time.time() + 120)
if found is None:
    raise SystemExit("signature %s not found" % sig)
res, v, seed = found
case2, res2, v2, seed2 = harness.minimise(check, case, res, v, seed, budget_s=60)
doc = harness.replay_doc(check, case2, seed2, -1, 0, res2, v2)
json.dump(doc, open(out, "w"), indent=1, default=str)
print("written", out, v2["sig"], v2["msg"][:300])
