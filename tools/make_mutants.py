"""Development aid: (re)generate every mutants/<PROP>-*.patch against the CURRENT /repo.
Each mutant is a small realistic edit that still passes the 430 baseline tests; the property's
quick check must exit 1 on it (tools/run_mutants.sh).  Re-run after any commit to /repo."""
import os
import shutil
import subprocess
import sys
import tempfile

sys.path.insert(0, os.path.dirname(os.path.abspath(__file__)))
OUT = "/verif/mutants"
FAILED = []


def make(name, relpath, *edits):
    """edits: (old, new) pairs applied to one file."""
    src = open(os.path.join("/repo", relpath)).read()
    new = src
    for old, rep in edits:
        if new.count(old) != 1:
            FAILED.append((name, "anchor count %d" % new.count(old)))
            return
        new = new.replace(old, rep)
    d = tempfile.mkdtemp(dir="/var/tmp")
    try:
        a = os.path.join(d, "a", relpath)
        b = os.path.join(d, "b", relpath)
        os.makedirs(os.path.dirname(a))
        os.makedirs(os.path.dirname(b))
        open(a, "w").write(src)
        open(b, "w").write(new)
        p = subprocess.run(["diff", "-u", "a/" + relpath, "b/" + relpath], cwd=d, capture_output=True, text=True)
        open(os.path.join(OUT, name + ".patch"), "w").write(p.stdout)
    finally:
        shutil.rmtree(d)


P, L, LR, C, S, F, A, T, ST = ("rich/progress.py", "rich/live.py", "rich/live_render.py", "rich/console.py", "rich/segment.py",
                               "rich/file_proxy.py", "rich/ansi.py", "rich/theme.py", "rich/status.py")

for f in os.listdir(OUT):
    if f.endswith(".patch"):
        os.remove(os.path.join(OUT, f))

# ---- C12 -------------------------------------------------------------------
ADV = """        with self._lock:
            current_time = self.get_time()
            task = self._tasks[task_id]
            completed_start = task.completed
            task.completed += advance"""
make("C12-advance-nolock", P, (ADV, ADV.replace("with self._lock:", "if True:")))
make("C12-advance-clock-outside", P, (ADV, """        current_time = self.get_time()
        with self._lock:
            task = self._tasks[task_id]
            completed_start = task.completed
            task.completed += advance"""))
make("C12-track-final-advance", P, ("self.progress.update(self.task_id, completed=self.completed, refresh=True)",
                                    "self.progress.update(self.task_id, advance=self.completed, refresh=True)"))
make("C12-finished-time-reassigned", P, ("""                _progress.append(ProgressSample(current_time, update_completed))
            if task.completed >= task.total and task.finished_time is None:""",
                                         """                _progress.append(ProgressSample(current_time, update_completed))
            if task.completed >= task.total:"""))
make("C12-update-nolock", P, ("""        with self._lock:
            task = self._tasks[task_id]
            completed_start = task.completed

            if total is not None:""", """        if True:
            task = self._tasks[task_id]
            completed_start = task.completed

            if total is not None:"""))
make("C12-addtask-nolock", P, ("""        with self._lock:
            task = Task(
                self._task_index,""", """        if True:
            task = Task(
                self._task_index,"""))
make("C12-percentage-noclamp", P, ("        completed = min(100.0, max(0.0, completed))", "        completed = min(100.0, completed)"))

# ---- C10 -------------------------------------------------------------------
make("C10-position-cursor-extra-line", LR, ('"\\x1b[1A\\x1b[2K" * (height - 1))', '"\\x1b[1A\\x1b[2K" * height)'))
make("C10-restore-cursor-one-short", LR, ('return Control("\\r" + "\\x1b[1A\\x1b[2K" * height)', 'return Control("\\r" + "\\x1b[1A\\x1b[2K" * (height - 1))'))
make("C10-live-stop-no-redirect-restore", L, ("""            finally:
                self._disable_redirect_io()
                self.console.pop_render_hook()""", """            finally:
                self.console.pop_render_hook()"""))
make("C10-progress-stop-no-pop-hook", P, ("""                self._disable_redirect_io()
                self.console.pop_render_hook()
            if self.transient:""", """                self._disable_redirect_io()
            self.console.pop_render_hook()
            if self.transient:"""))
make("C11-revert-transient-erase-under-lock", P, ("""            if self.transient:
                self.console.control(self._live_render.restore_cursor())
        if refresh_thread is not None:
            refresh_thread.join()""", """        if refresh_thread is not None:
            refresh_thread.join()
        if self.transient:
            self.console.control(self._live_render.restore_cursor())"""))
make("C10-live-stop-cursor-not-in-finally", L, ("""                self.console.pop_render_hook()
                self.console.show_cursor(True)

            if self.transient:""", """                self.console.pop_render_hook()
            self.console.show_cursor(True)

            if self.transient:"""))
make("C10-progress-stop-no-newline", P, ("""                self.refresh()
                if self.console.is_terminal:
                    self.console.line()
            finally:
                self.console.show_cursor(True)""", """                self.refresh()
            finally:
                self.console.show_cursor(True)"""))
make("C10-ellipsis-off-by-one", L, ("lines = lines[: (console.size.height - 1)]", "lines = lines[: console.size.height]"))
make("C10-shape-not-updated-after-crop", L, ("""                    lines = lines[: console.size.height]
                    shape = Segment.get_shape(lines)""", """                    lines = lines[: console.size.height]"""))
make("C10-revert-shape-reset-live", L, ("            self._live_render._shape = None\n", ""))
make("C10-revert-shape-reset-progress", P, ("            self._live_render._shape = None\n", ""))
FLUSH = """                for stream in (sys.stdout, sys.stderr):
                    if isinstance(stream, FileProxy):
                        stream.flush()
"""
make("C10-revert-flush-at-stop-live", L, (FLUSH, ""))
make("C10-revert-flush-at-stop-progress", P, (FLUSH, ""))
make("C10-flush-at-stop-stdout-only", P, ("                for stream in (sys.stdout, sys.stderr):\n", "                for stream in (sys.stdout,):\n"))
make("C10-revert-overflow-restore", L, ("""                finally:
                    self.vertical_overflow = vertical_overflow
""", """                finally:
                    pass
"""))
make("C10-revert-start-cleanup", P, ("""            except BaseException:
                # __exit__ never runs when __enter__ raises: undo what start() did so far
                self._started = False
                self.console.show_cursor(True)
                self._disable_redirect_io()
                self.console.pop_render_hook()
                raise""", """            except BaseException:
                raise"""))
make("C10-update-refresh-before-install", L, ("""        with self._lock:
            self._live_render.set_renderable(renderable)
            if refresh:
                self.refresh()""", """        with self._lock:
            if refresh:
                self.refresh()
            self._live_render.set_renderable(renderable)"""))
make("C10-status-exit-skips-stop-on-exception", ST, ("""    def __exit__(self, exc_type, exc_val, exc_tb) -> None:
        self.stop()""", """    def __exit__(self, exc_type, exc_val, exc_tb) -> None:
        if exc_type is None:
            self.stop()"""))
make("C10-progress-cursor-never-hidden", P, ("""            self.console.show_cursor(False)
            self._enable_redirect_io()
            self.console.push_render_hook(self)
            try:""", """            self._enable_redirect_io()
            self.console.push_render_hook(self)
            try:"""))

# ---- C11 -------------------------------------------------------------------
make("C11-check-buffer-nolock", C, ("""        with self._lock:
            if self._buffer_index == 0:""", """        if True:
            if self._buffer_index == 0:"""))
RECORD_BEFORE_LOCK = ("""        with self._lock:
            if self._buffer_index == 0:
                if self.is_jupyter:  # pragma: no cover""", """        if self.record and self._buffer_index == 0:
            with self._record_buffer_lock:
                self._record_buffer.extend(self._buffer[:])
        with self._lock:
            if self._buffer_index == 0:
                if self.is_jupyter:  # pragma: no cover"""), ("""                        if self.record:
                            with self._record_buffer_lock:
                                self._record_buffer.extend(segments)
""", "")
make("C11-record-before-lock", C, *RECORD_BEFORE_LOCK)
make("C11-shared-buffer", C, ("""    def _buffer(self) -> List[Segment]:
        \"\"\"Get a thread local buffer.\"\"\"
        return self._thread_locals.buffer""", """    def _buffer(self) -> List[Segment]:
        \"\"\"Get a thread local buffer.\"\"\"
        try:
            return self._shared_buffer
        except AttributeError:
            self._shared_buffer: List[Segment] = []
            return self._shared_buffer"""))
make("C11-capture-exit-before-render", C, ("""        render_result = self._render_buffer(self._buffer[start:])
        del self._buffer[start:]
        self._exit_buffer()
        return render_result""", """        self._exit_buffer()
        render_result = self._render_buffer(self._buffer[start:])
        del self._buffer[start:]
        return render_result"""))
make("C11-buffer-clear-after-write", C, ("""                    text = self._render_buffer(segments)
                    del self._buffer[:]
""", """                    text = self._render_buffer(segments)
"""))
make("C11-stop-lock-inversion", L, ("""        \"\"\"Stop live rendering display.\"\"\"
        with self._lock:""", """        \"\"\"Stop live rendering display.\"\"\"
        with self.console._lock, self._lock:"""))
make("C11-live-refresh-nolock", L, ("""            with self._lock, self.console:
                self.console.print(Control(""))""", """            with self.console:
                self.console.print(Control(""))"""))
make("C11-join-inside-lock", L, ("""        if self.auto_refresh and refresh_thread is not None:
            refresh_thread.join()""", """            if self.auto_refresh and refresh_thread is not None:
                refresh_thread.join()"""))
make("C11-revert-refresh-thread-under-lock", P, ("""            refresh_thread = self._refresh_thread
            self._refresh_thread = None
            try:
                if self.auto_refresh and refresh_thread is not None:
                    refresh_thread.stop()
                # print any partial""", """            try:
                if self.auto_refresh and self._refresh_thread is not None:
                    self._refresh_thread.stop()
                # print any partial"""), ("""        if refresh_thread is not None:
            refresh_thread.join()""", """        if self._refresh_thread is not None:
            self._refresh_thread.join()
            self._refresh_thread = None"""))
# (reverting the read-once of LiveRender._shape (F5c) is not a useful mutant any more: since the
# shape is forgotten in start() under the display lock (F5d) the window needs a hooked print whose
# render spans a stop and a start by other threads at one particular bytecode; 2 000+ runs: nothing)
make("C11-progress-start-check-outside-lock", P, ("""        with self._lock:
            if self._started:
                return
            self._started = True
            # nothing of this display""", """        if self._started:
            return
        with self._lock:
            self._started = True
            # nothing of this display"""))

# ---- C15 -------------------------------------------------------------------
RECORD_BLOCK = """                        # record what the file has taken, and only that: not output the file
                        # refused, and also output whose flush fails afterwards
                        if self.record:
                            with self._record_buffer_lock:
                                self._record_buffer.extend(segments)
"""
make("C15-record-before-write", C, (RECORD_BLOCK, ""), ("""                    del self._buffer[:]
                    try:
""", """                    del self._buffer[:]
                    if self.record:
                        with self._record_buffer_lock:
                            self._record_buffer.extend(segments)
                    try:
"""))
make("C15-record-after-flush", C, (RECORD_BLOCK, ""), ("""                        if text:
                            self.file.flush()
""", """                        if text:
                            self.file.flush()
                        if self.record:
                            with self._record_buffer_lock:
                                self._record_buffer.extend(segments)
"""))
make("C15-revert-capture-start", C, ("""        start = capture_starts.pop() if capture_starts else 0
""", """        start = 0
"""))
make("C15-capture-start-not-popped", C, ("""        start = capture_starts.pop() if capture_starts else 0
""", """        start = capture_starts[-1] if capture_starts else 0
"""))
make("C15-revert-record-at-write", C, ("""                        if self.record:
                            with self._record_buffer_lock:
                                self._record_buffer.extend(segments)
""", ""),
     ("""        legacy_windows = self.legacy_windows
        not_terminal = not self.is_terminal""", """        legacy_windows = self.legacy_windows
        if self.record:
            with self._record_buffer_lock:
                self._record_buffer.extend(buffer)
        not_terminal = not self.is_terminal"""))
make("C15-revert-simplify-control", S, ("""                and not segment.is_control
                and not last_segment.is_control""", """                and not segment.is_control"""))
ESC = """            return text.replace("&", "&amp;").replace("<", "&lt;").replace(">", "&gt;")"""
make("C15-html-no-lt-escape", C, (ESC, """            return text.replace("&", "&amp;").replace(">", "&gt;")"""))
make("C15-html-amp-escaped-last", C, (ESC, """            return text.replace("<", "&lt;").replace(">", "&gt;").replace("&", "&amp;")"""))
make("C15-export-text-clear-ignored", C, ("""                    if not segment.is_control
                )
            if clear:
                del self._record_buffer[:]""", """                    if not segment.is_control
                )
            if clear and styles:
                del self._record_buffer[:]"""))
make("C15-export-html-noclear-clears", C, ("""                background=_theme.background_color.hex,
            )
            if clear:
                del self._record_buffer[:]""", """                background=_theme.background_color.hex,
            )
            if clear or inline_styles:
                del self._record_buffer[:]"""))
make("C15-html-control-not-filtered", C, ("""                for text, style, _ in Segment.filter_control(
                    Segment.simplify(self._record_buffer)
                ):
                    text = escape(text)
                    if style:
                        rule = style.get_html_style(_theme)
                        if rule:
                            style_number""", """                for text, style, _ in Segment.simplify(self._record_buffer):
                    text = escape(text)
                    if style:
                        rule = style.get_html_style(_theme)
                        if rule:
                            style_number"""))
make("C15-capture-drops-first-segment", C, ("""        render_result = self._render_buffer(self._buffer[start:])
        del self._buffer[start:]""", """        render_result = self._render_buffer(self._buffer[start + 1 :])
        del self._buffer[start:]"""))
make("C15-styled-export-no-color", C, ("""                    (style.render(text) if style else text)
                    for text, style, _ in self._record_buffer""", """                    (style.without_color.render(text) if style else text)
                    for text, style, _ in self._record_buffer"""))
make("C15-record-before-lock", C, *RECORD_BEFORE_LOCK)

# ---- C19 -------------------------------------------------------------------
make("C19-revert-reset-keeps-link", A, ("""                        link = self.style.link
                        self.style = _Style(link=link) if link else _Style.null()
""", """                        self.style = _Style.null()
"""))
make("C19-revert-flush-verbatim", F, ("""            self.__console.print(
                "".join(buffer), markup=False, emoji=False, highlight=False
            )""", """            self.__console.print("".join(buffer))"""))
make("C19-proxy-keeps-only-last-piece", F, ("""                lines.append("".join(buffer) + line)""", """                lines.append("".join(buffer[-1:]) + line)"""))
make("C19-proxy-prefix-reused-for-second-line", F, ("""                lines.append("".join(buffer) + line)
                del buffer[:]""", """                lines.append("".join(buffer) + line)
                if len(lines) > 1:
                    del buffer[:]"""))
make("C19-proxy-partial-after-lines-dropped", F, ("""            else:
                buffer.append(line)
                break""", """            else:
                if not lines:
                    buffer.append(line)
                break"""))
make("C19-proxy-flush-keeps-buffer", F, ("""                "".join(buffer), markup=False, emoji=False, highlight=False
            )
            del buffer[:]""", """                "".join(buffer), markup=False, emoji=False, highlight=False
            )"""))
make("C19-decoder-bright-bg", A, ("""    100: "on color(8)",""", """    100: "on color(0)","""))
make("C19-decoder-state-reset-per-line", A, ("""        text = Text()
        append = text.append
        line = line.rsplit("\\r", 1)[-1]""", """        text = Text()
        append = text.append
        self.style = _Style.null()
        line = line.rsplit("\\r", 1)[-1]"""))
make("C19-decoder-rgb-bg-as-fg", A, ("""                            elif color_type == 2:
                                self.style += _Style.from_color(
                                    None,
                                    from_rgb(""", """                            elif color_type == 2:
                                self.style += _Style.from_color(
                                    from_rgb("""))
make("C19-decoder-256-clamped", A, ("min(255, int(_code)) for _code in sgr.split", "min(254, int(_code)) for _code in sgr.split"))
make("C19-decoder-link-ignored-with-params", A, ("""                    if semicolon:
                        self.style = self.style.update_link(link or None)""", """                    if semicolon and _params == "":
                        self.style = self.style.update_link(link or None)"""))
make("C19-proxy-drops-trailing-blank-line", F, ("""                output = Text("\\n").join(
                    self.__ansi_decoder.decode_line(line) for line in lines
                )""", """                output = Text("\\n").join(
                    self.__ansi_decoder.decode("\\n".join(lines))
                )"""))

# ---- C20 -------------------------------------------------------------------
make("C20-revert-use-theme-inherit", C, ("self.console.push_theme(self.theme, inherit=self.inherit)", "self.console.push_theme(self.theme)"))
make("C20-pop-no-rebind", T, ("""        self._entries.pop()
        self.get = self._entries[-1].get""", """        self._entries.pop()"""))
MERGE = "            {**self._entries[-1], **theme.styles} if inherit else theme.styles.copy()"
make("C20-push-ignores-inherit", T, (MERGE, "            {**self._entries[-1], **theme.styles}"))
make("C20-inherit-merges-wrong-order", T, (MERGE, "            {**theme.styles, **self._entries[-1]} if inherit else theme.styles.copy()"))
make("C20-exit-skips-pop-on-exception", C, ("""    def __exit__(self, exc_type, exc_val, exc_tb) -> None:
        self.console.pop_theme()""", """    def __exit__(self, exc_type, exc_val, exc_tb) -> None:
        if exc_type is None:
            self.console.pop_theme()"""))
make("C20-base-poppable", T, ("        if len(self._entries) == 1:\n            raise ThemeStackError", "        if len(self._entries) == 0:\n            raise ThemeStackError"))
make("C20-config-drops-null-style", T, ("""for name, style in sorted(self.styles.items())""", """for name, style in sorted(self.styles.items()) if style"""))

print("%d patches written" % len([f for f in os.listdir(OUT) if f.endswith(".patch")]))
for name, why in FAILED:
    print("FAILED", name, why)
sys.exit(1 if FAILED else 0)
