#!/bin/sh
# Development aid: every replays/fixed/*.json must report "is back" when its fix is reverted.
cd "$(dirname "$0")/.."
while read REPLAY MUT PROP; do
  D=$(mktemp -d /var/tmp/rich-verif-XXXXXX); cp -r /repo/rich "$D/rich"
  (cd "$D" && patch -s -p1 < "/verif/mutants/$MUT.patch") || { echo "PATCH-FAILED $MUT"; rm -rf "$D"; continue; }
  OUT=$(DSIM_REPO="$D" timeout 600 bin/check $PROP --tier quick --budget 1 --no-selftest --no-evidence --no-minimise --procs 2 2>&1 | grep -c "defect of $REPLAY.json is back")
  echo "$REPLAY vs $MUT: back=$OUT"
  rm -rf "$D"
done <<LIST
C10-F2-progress-start-raises C10-revert-start-cleanup C10
C10-F5-restart-stale-shape C10-revert-shape-reset-live C10
C10-F5b-restart-overflow-visible C10-revert-overflow-restore C10
C11-F12-refresh-thread-leak C11-revert-refresh-thread-under-lock C11
C11-F6b-transient-erase-outside-lock C11-revert-transient-erase-under-lock C11
C10-F13-partial-line-flushed-after-stop C10-revert-flush-at-stop-progress C10
C12-F1-negative-speed C12-advance-clock-outside C12
C15-F8-captured-output-recorded C15-revert-record-at-write C15
C15-F9-control-code-in-html C15-revert-simplify-control C15
C15-F14-nested-capture C15-revert-capture-start C15
C15-F16-refused-write-recorded C15-record-before-write C15
C19-F10-flush-markup C19-revert-flush-verbatim C19
C19-F15-sgr-reset-drops-link C19-revert-reset-keeps-link C19
C20-F11-use-theme-inherit C20-revert-use-theme-inherit C20
LIST
