#!/bin/sh
# Development aid: all mutants of all properties, 4 properties in parallel is too heavy; run sequentially.
cd "$(dirname "$0")/.."
for p in C12 C20 C15 C19 C10 C11; do tools/run_mutants.sh $p ${1:-25} 2>&1 | grep -v "^KNOWN"; done
