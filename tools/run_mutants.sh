#!/bin/sh
# Development aid (not a registered check): apply each mutants/<PROP>-*.patch to a scratch copy of
# /repo/rich under /var/tmp and expect the property's quick check to exit 1.
# usage: tools/run_mutants.sh C12 [budget-seconds] [pattern]
PROP=$1; BUDGET=${2:-30}; PAT=${3:-}
cd "$(dirname "$0")/.."
for p in mutants/${PROP}-*${PAT}*.patch seeded/*/patch.diff; do
  [ -f "$p" ] || continue
  case "$p" in seeded/*) grep -q "\"$PROP\"" "$(dirname $p)/meta.json" 2>/dev/null || continue;; esac
  D=$(mktemp -d /var/tmp/rich-verif-XXXXXX)
  cp -r /repo/rich "$D/rich"
  if ! (cd "$D" && patch -s -p1 < "$OLDPWD/$p"); then echo "PATCH-FAILED $p"; rm -rf "$D"; continue; fi
  DSIM_REPO="$D" timeout 900 bin/check "$PROP" --tier quick --budget "$BUDGET" --no-selftest --no-evidence --no-minimise > "$D/out.txt" 2>&1
  rc=$?
  sig=$(grep -A1 "^VIOLATION" "$D/out.txt" | grep -o "sig=[^ ]*" | tr '\n' ' ')
  runs=$(grep -o "runs=[0-9]*" "$D/out.txt" | tail -1)
  echo "$p rc=$rc $sig $runs"
  [ "$rc" = 2 ] && tail -5 "$D/out.txt"
  rm -rf "$D"
done
