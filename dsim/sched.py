"""dsim.sched — deterministic scheduler for real Python threads.

Every simulated thread is a real OS thread that owns a semaphore; exactly one
thread holds the baton at any time and the scheduler alone decides who gets it
next.  Pre-emption points come from sys.monitoring LINE / INSTRUCTION events in
the shared-state modules of rich plus explicit yield points in the sim
primitives (locks, events, file writes, clock reads, operation boundaries).

One `Sim` object is one run.  All choices are made by a policy object that
draws from one `random.Random`; the complete ordered list of decisions is
recorded so that a `Scripted` policy can replay the run exactly.
"""
import gc
import hashlib
import heapq
import sys
import threading
import types

_ORIG_START = threading.Thread.start
_ORIG_JOIN = threading.Thread.join
_ORIG_IS_ALIVE = threading.Thread.is_alive
_RealSemaphore = threading.Semaphore
_RealThread = threading.Thread
_get_ident = threading.get_ident

RUNNABLE, BLOCKED, DONE = "R", "B", "D"

CURRENT = None  # the active Sim (at most one per process)

K_UNFAIR = 5000  # random walk: a runnable thread is never passed over for more decisions
R_TIMERS = 8  # timer firings allowed between two yield points of client threads


class SimAbort(BaseException):
    """Raised inside simulated threads to unwind them when a run is torn down."""


class ReplayDivergence(Exception):
    pass


class HarnessError(Exception):
    pass


class SimThread:
    __slots__ = (
        "tid", "name", "kind", "state", "blocked_on", "sem", "real", "exc",
        "atomic", "since", "prio", "timed_out", "yields", "last_site", "tb",
    )

    def __init__(self, tid, name, kind):
        self.tid = tid
        self.name = name
        self.kind = kind  # "client" | "helper"
        self.state = RUNNABLE
        self.blocked_on = None
        self.sem = _RealSemaphore(0)
        self.real = None
        self.exc = None
        self.tb = None
        self.atomic = 0
        self.since = 0  # decision number since which it has been waiting to run
        self.prio = 0.0
        self.timed_out = False
        self.yields = 0
        self.last_site = None


# ---------------------------------------------------------------------------
# policies


class RandomWalk:
    """Continue with probability 1-p, else switch to a uniformly chosen other option."""

    name = "random"

    def __init__(self, rng, p):
        self.rng = rng
        self.p = p

    def describe(self):
        return {"policy": "random", "p": self.p}

    def want_switch(self, sim):
        return self.rng.random() < self.p

    def choose(self, sim, me, options, forced):
        # options: list of ints (tid >= 0 run; -1-tid fire timer of tid)
        if me is not None and len(options) > 1:
            options = [o for o in options if o != me]
        return options[int(self.rng.random() * len(options))]

    def on_spawn(self, sim, t):
        pass


class PCT:
    """Priority scheduling with d priority change points (Burckhardt et al.)."""

    name = "pct"

    def __init__(self, rng, d, est_steps):
        self.rng = rng
        self.d = d
        self.est = max(1, est_steps)
        self.points = sorted(int(rng.random() * self.est) for _ in range(d))
        self.low = 0.0

    def describe(self):
        return {"policy": "pct", "d": self.d, "points": list(self.points)}

    def on_spawn(self, sim, t):
        t.prio = 1.0 + self.rng.random()

    def want_switch(self, sim):
        cur = sim.threads[sim.current]
        while self.points and sim.step >= self.points[0]:
            self.points.pop(0)
            self.low -= 1.0
            cur.prio = self.low
        return True  # always re-evaluate priorities (cheap: few threads)

    def choose(self, sim, me, options, forced):
        best = None
        bp = None
        for o in options:
            tid = o if o >= 0 else -1 - o
            p = sim.threads[tid].prio
            if o < 0:
                p -= 0.5  # a sleeping thread ranks just below the same thread awake
            if bp is None or p > bp:
                best, bp = o, p
        if best < 0:
            # a timer fired by choice counts as a priority change point: the
            # sleeper pre-empts once, afterwards its timer fires only when idle
            self.low -= 1.0
            sim.threads[-1 - best].prio = self.low
        return best


class Single:
    """No pre-emption except at d chosen global steps, where another option is forced."""

    name = "single"

    def __init__(self, rng, d, est_steps):
        self.rng = rng
        self.est = max(1, est_steps)
        self.points = sorted(int(rng.random() * self.est) for _ in range(d))
        self.d = d
        self.fire = False

    def describe(self):
        return {"policy": "single", "d": self.d, "points": list(self.points)}

    def on_spawn(self, sim, t):
        pass

    def want_switch(self, sim):
        if self.points and sim.step >= self.points[0]:
            self.points.pop(0)
            self.fire = True
            return True
        return False

    def choose(self, sim, me, options, forced):
        if self.fire:
            self.fire = False
            others = [o for o in options if o != me]
            if others:
                return others[int(self.rng.random() * len(others))]
        if not forced and me in options:
            return me
        run = [o for o in options if o >= 0]
        if run:
            return run[int(self.rng.random() * len(run))]
        return options[0]


class Race:
    """Atomicity-violation directed: thread A is stopped right before it reads a shared attribute
    for the second time within a few lines (check-then-act), thread B -- held back at an earlier
    operation boundary until then -- runs until it has passed a store to that attribute, then A
    goes on.  The plan comes from a dry run of the same case and names places, not step numbers
    (A: the n-th arrival at a source line; B: its k-th operation boundary, then the first arrival
    at the storing line), because B's path depends on what the others did meanwhile.  Everything
    else runs as under `Single` with d = 0."""

    name = "race"

    def __init__(self, rng, plan):
        self.rng = rng
        self.plan = plan
        self.phase = 0 if plan else 3
        self.fire = None
        self.cnt = {}
        self.b_held = False
        self.b_passed = False
        if plan:
            self.a_site = tuple(plan["a_site"])
            self.b_site = tuple(plan["b_site"])

    def describe(self):
        return {"policy": "race", "plan": self.plan}

    def on_spawn(self, sim, t):
        pass

    def _held(self, sim, tid):
        return self.phase == 0 and self.b_held and tid == self.plan["B"]

    def want_switch(self, sim):
        if self.phase >= 2:
            return False
        p = self.plan
        cur = sim.threads[sim.current]
        site = cur.last_site
        if self.phase == 0:
            if cur.tid == p["A"] and site == self.a_site:
                n = self.cnt.get("a", 0) + 1
                self.cnt["a"] = n
                if n == p["a_occ"]:
                    self.phase = 1
                    self.fire = p["B"]
                    return True
            elif cur.tid == p["B"]:
                if site == "op":
                    n = self.cnt.get("b", 0) + 1
                    self.cnt["b"] = n
                    if n >= p["hold_op"]:
                        self.b_held = True
                if self.b_held:
                    self.fire = p["A"]
                    return True
            return False
        if cur.tid == p["B"]:
            if self.b_passed:
                self.phase = 2
                self.fire = p["A"]
                return True
            if site == self.b_site:
                self.b_passed = True
        return False

    def choose(self, sim, me, options, forced):
        fire, self.fire = self.fire, None
        if fire is not None and fire in options:
            return fire
        if fire is not None:
            others = [o for o in options if o >= 0 and o != me and not self._held(sim, o)]
            if others:
                return others[int(self.rng.random() * len(others))]
        if not forced and me in options:
            return me
        run = [o for o in options if o >= 0]
        if self.phase == 1 and self.plan["B"] in run:
            return self.plan["B"]
        free = [o for o in run if not self._held(sim, o)]
        pick = free or run
        if pick:
            return pick[int(self.rng.random() * len(pick))]
        return options[0]


class Scripted:
    """Replays a recorded decision list.  strict: any mismatch is a divergence.
    lenient: invalid / missing decisions fall back to 'continue, else lowest tid,
    else earliest timer' (used by the minimiser)."""

    name = "scripted"

    def __init__(self, decisions, lenient=False):
        self.dec = decisions  # flat list of option ints
        self.i = 0
        self.lenient = lenient
        self.fallbacks = 0

    def describe(self):
        return {"policy": "scripted", "n": len(self.dec), "lenient": self.lenient}

    def on_spawn(self, sim, t):
        pass

    def want_switch(self, sim):
        return True

    def choose(self, sim, me, options, forced):
        if self.i < len(self.dec):
            o = self.dec[self.i]
            self.i += 1
            if o in options:
                return o
            if not self.lenient:
                raise ReplayDivergence(
                    "decision %d: scripted %r not in %r at step %d" % (self.i - 1, o, options, sim.step)
                )
        elif not self.lenient:
            raise ReplayDivergence("script exhausted at step %d" % sim.step)
        self.fallbacks += 1
        if not forced and me in options:
            return me
        run = [o for o in options if o >= 0]
        return min(run) if run else options[0]


def rle(decisions):
    out = []
    for d in decisions:
        if out and out[-1][0] == d:
            out[-1][1] += 1
        else:
            out.append([d, 1])
    return out


def unrle(pairs):
    out = []
    for d, n in pairs:
        out.extend([d] * n)
    return out


# ---------------------------------------------------------------------------


class Sim:
    def __init__(self, policy, max_steps=2_000_000, max_vtime=1.0e4, digest_sites=False):
        self.policy = policy
        self.scripted = isinstance(policy, Scripted)
        # the K rule applies to the random walk only; PCT / Single are unfair by
        # construction and terminate because rich has no spin loops and a timer
        # fired by choice lowers the sleeper's priority
        self.fair = isinstance(policy, RandomWalk)
        self.threads = []
        self.by_ident = {}
        self.current = None
        self.now = 0.0
        self.timer_time = 0.0  # virtual time that passed through timers (injected clock jumps excluded)
        self.timers = []  # heap of (deadline, seq, tid)
        self.tseq = 0
        self.step = 0  # yield points executed
        self.ndec = 0  # decisions taken
        self.seq = 0  # global event sequence number (log)
        self.max_steps = max_steps
        self.max_vtime = max_vtime
        self.decisions = []
        self.aborting = False
        self.failure = None  # ("deadlock"|"step-cap"|"vtime-cap"|"replay-divergence"|..., detail)
        self.main_done = _RealSemaphore(0)
        self.finished = False
        self.log = []  # (seq, tid, kind, detail)
        self.h = hashlib.sha256()
        self.digest_sites = digest_sites
        self.timer_fires_row = 0
        self.switches = 0
        self.switch_sig = hashlib.sha256()
        self.sites_hit = set()
        self.stats = {
            "timer_fired_by_choice": 0, "timer_fired_idle": 0, "lock_contended": 0,
            "forced_fair": 0, "threads": 0, "helper_threads": 0,
        }
        self.want_trace_files = None
        self.trace = None  # when a list: (tid, own yield count, kind, site, thread kind) of every yield point
        self.on_event = None  # callback(seq, tid, kind, detail) run atomically

    # -- logging -----------------------------------------------------------
    def event(self, kind, detail=None, tid=None):
        self.seq += 1
        if tid is None:
            me = self.by_ident.get(_get_ident())
            tid = me.tid if me is not None else -1
        rec = (self.seq, tid, kind, detail)
        self.log.append(rec)
        self.h.update(repr(rec).encode("utf-8", "surrogatepass"))
        return self.seq

    def digest(self):
        h = self.h.copy()
        h.update(("|steps=%d|dec=%d|now=%r" % (self.step, self.ndec, self.now)).encode())
        h.update(repr(rle(self.decisions)).encode())
        return h.hexdigest()

    # -- threads -----------------------------------------------------------
    def me(self):
        return self.by_ident.get(_get_ident())

    def spawn(self, fn, name, kind="client"):
        tid = len(self.threads)
        t = SimThread(tid, name, kind)
        t.since = self.ndec
        self.threads.append(t)
        self.stats["threads"] += 1
        if kind == "helper":
            self.stats["helper_threads"] += 1
        self.policy.on_spawn(self, t)

        def body():
            self.by_ident[_get_ident()] = t
            t.sem.acquire()
            try:
                if self.aborting:
                    raise SimAbort()
                fn()
            except SimAbort:
                pass
            except BaseException as e:  # recorded, never swallowed silently
                t.exc = e
                import traceback

                t.tb = traceback.format_exc()
                if not self.aborting:
                    self.event("thread-died", type(e).__name__ + ": " + str(e)[:200], tid=t.tid)
            finally:
                t.state = DONE
                if not self.aborting:
                    self.event("thread-done", None, tid=t.tid)
                    for o in self.threads:
                        if o.state == BLOCKED and o.blocked_on == ("join", t.tid):
                            o.state = RUNNABLE
                            o.blocked_on = None
                            o.since = self.ndec
                    try:
                        self._leave(t)
                    except SimAbort:
                        pass
                    except BaseException as e:
                        self._fail("harness", repr(e))

        t.real = _RealThread(target=body, name="dsim-%d" % tid, daemon=True)
        _ORIG_START(t.real)
        return t

    def run(self, wall_timeout=120.0):
        """Give the baton to thread 0 and wait until every thread is done or the run failed."""
        global CURRENT
        if not self.threads:
            return
        CURRENT = self
        try:
            first = self.threads[0]
            self.current = first.tid
            first.sem.release()
            ok = self.main_done.acquire(timeout=wall_timeout)
            if not ok:
                self.failure = self.failure or ("wall-timeout", "run exceeded %.0fs" % wall_timeout)
            self.finished = True
            if any(t.state != DONE for t in self.threads):
                self.aborting = True
                for t in self.threads:
                    if t.state != DONE:
                        t.sem.release()
            leaked = 0
            for t in self.threads:
                _ORIG_JOIN(t.real, 10)
                if _ORIG_IS_ALIVE(t.real):
                    leaked += 1
            if leaked:
                self.failure = self.failure or ("harness", "%d simulated threads did not exit" % leaked)
        finally:
            CURRENT = None

    def _fail(self, kind, detail):
        if self.failure is None:
            self.failure = (kind, detail)
        self.aborting = True
        self.main_done.release()

    # -- option computation ------------------------------------------------
    def _timer_candidates(self):
        """Threads blocked in a timed wait, earliest deadline first."""
        out = []
        for d, s, tid in self.timers:
            t = self.threads[tid]
            if t.state == BLOCKED and t.blocked_on is not None and t.blocked_on[0] in ("wait", "sleep") and t.blocked_on[2] == s:
                out.append((d, s, tid))
        out.sort()
        return out

    def _options(self, me_tid, forced):
        run = [t.tid for t in self.threads if t.state == RUNNABLE]
        opts = list(run)
        tc = self._timer_candidates()
        if tc and (not run or self.timer_fires_row < R_TIMERS):
            if isinstance(self.policy, (PCT, Scripted)):
                opts.extend(-1 - tid for (_, _, tid) in tc)
            else:
                opts.append(-1 - tc[0][2])
        return opts, run, tc

    def _fire_timer(self, tid, by_choice):
        t = self.threads[tid]
        seq = t.blocked_on[2]
        for i, (d, s, ttid) in enumerate(self.timers):
            if s == seq:
                if d > self.now:
                    self.timer_time += d - self.now
                    self.now = d
                del self.timers[i]
                heapq.heapify(self.timers)
                break
        t.state = RUNNABLE
        t.blocked_on = None
        t.timed_out = True
        t.since = self.ndec
        self.timer_fires_row += 1
        self.stats["timer_fired_by_choice" if by_choice else "timer_fired_idle"] += 1
        self.event("timer", (tid, round(self.now, 9)), tid=tid)
        if self.timer_time > self.max_vtime:
            self._fail("vtime-cap", "timer-driven virtual time %.1f exceeded cap" % self.timer_time)
            raise SimAbort()

    def _decide(self, me, forced):
        """Returns the tid that gets the baton (firing a timer if that was the choice)."""
        opts, run, tc = self._options(me.tid if me else None, forced)
        me_tid = me.tid if (me is not None and me.state == RUNNABLE) else None
        if not opts:
            return None
        self.ndec += 1
        choice = None
        if self.fair:
            # bounded unfairness: a runnable thread passed over for K decisions is forced
            starved = None
            for tid in run:
                if tid != me_tid or forced:
                    t = self.threads[tid]
                    if self.ndec - t.since > K_UNFAIR and (starved is None or t.since < self.threads[starved].since):
                        starved = tid
            if starved is not None:
                choice = starved
                self.stats["forced_fair"] += 1
        if choice is None:
            try:
                choice = self.policy.choose(self, me_tid, opts, forced)
            except ReplayDivergence as e:
                self._fail("replay-divergence", str(e))
                raise SimAbort()
        self.decisions.append(choice)
        if choice < 0:
            tid = -1 - choice
            self._fire_timer(tid, by_choice=bool(run))
            choice = tid
        return choice

    def _note_switch(self, frm, to):
        self.switches += 1
        site = frm.last_site if frm is not None else None
        self.switch_sig.update(repr((frm.tid if frm else -1, to, site)).encode())
        if self.digest_sites:
            self.h.update(repr(("sw", self.step, frm.tid if frm else -1, to, site)).encode())

    def _handoff(self, me, nxt_tid):
        """Pass the baton from me to nxt and park me until I get it back."""
        self._note_switch(me, nxt_tid)
        me.since = self.ndec
        self.current = nxt_tid
        self.threads[nxt_tid].sem.release()
        me.sem.acquire()
        if self.aborting:
            raise SimAbort()

    def _leave(self, me):
        """me is DONE: pass the baton on or end the run."""
        nxt = self._decide(me, True)
        if nxt is None:
            if any(t.state == BLOCKED for t in self.threads):
                self._fail("deadlock", self._wait_graph())
            else:
                self.main_done.release()
            return
        self._note_switch(me, nxt)
        self.current = nxt
        self.threads[nxt].sem.release()

    def _wait_graph(self):
        g = {}
        for t in self.threads:
            if t.state == BLOCKED:
                on = t.blocked_on
                if on[0] == "lock":
                    g[t.name] = "lock %s held by %s" % (on[2], on[3]())
                else:
                    g[t.name] = "%s" % (on[0],)
        return g

    # -- yield / block -----------------------------------------------------
    def yield_point(self, kind, site=None):
        me = self.by_ident.get(_get_ident())
        if me is None or me.atomic:
            return
        if self.aborting:
            raise SimAbort()
        if self.current != me.tid:
            # a thread running without the baton: harness bug
            self._fail("harness", "thread %s ran without the baton at %s" % (me.name, site))
            raise SimAbort()
        self.step += 1
        me.yields += 1
        if site is not None:
            me.last_site = site
            self.sites_hit.add(site)
        else:
            me.last_site = kind
        if self.trace is not None:
            self.trace.append((me.tid, me.yields, kind, site, me.kind))
        if me.kind == "client":
            self.timer_fires_row = 0
        if self.step > self.max_steps:
            self._fail("step-cap", "more than %d steps" % self.max_steps)
            raise SimAbort()
        if not self.scripted:
            # fast path: nothing else could run
            if not self.policy.want_switch(self):
                if (self.step & 63) or not self.fair or not self._starving(me):
                    self.ndec += 1
                    self.decisions.append(me.tid)
                    return
        nxt = self._decide(me, False)
        if nxt is None or nxt == me.tid:
            return
        self._handoff(me, nxt)

    def _starving(self, me):
        for t in self.threads:
            if t.state == RUNNABLE and t is not me and self.ndec - t.since > K_UNFAIR:
                return True
        return False

    def block(self, on):
        """Block the calling thread until someone makes it RUNNABLE again."""
        me = self.by_ident.get(_get_ident())
        if self.aborting:
            raise SimAbort()
        me.state = BLOCKED
        me.blocked_on = on
        self.step += 1
        nxt = self._decide(me, True)
        if nxt is None:
            self._fail("deadlock", self._wait_graph())
            raise SimAbort()
        if nxt == me.tid:  # my own timer fired
            return
        self._handoff(me, nxt)

    def wake(self, pred):
        for o in self.threads:
            if o.state == BLOCKED and o.blocked_on is not None and pred(o.blocked_on):
                o.state = RUNNABLE
                o.blocked_on = None
                o.since = self.ndec

    # -- time --------------------------------------------------------------
    def sleep(self, d):
        """Client-side sleep in virtual time."""
        me = self.me()
        self.yield_point("sleep")
        self.tseq += 1
        seq = self.tseq
        heapq.heappush(self.timers, (self.now + d, seq, me.tid))
        self.block(("sleep", None, seq))

    class _Atomic:
        def __init__(self, sim):
            self.sim = sim
            self.t = None

        def __enter__(self):
            self.t = self.sim.me()
            if self.t is not None:
                self.t.atomic += 1

        def __exit__(self, *a):
            if self.t is not None:
                self.t.atomic -= 1

    def atomic(self):
        return Sim._Atomic(self)


# ---------------------------------------------------------------------------
# synchronisation primitives served to rich instead of threading's


class SimRLock:
    _n = 0

    def __init__(self):
        SimRLock._n += 1
        self.owner = None
        self.count = 0
        try:  # where rich created it, e.g. "console.py:487" (for the wait-for graph of a deadlock)
            f = sys._getframe(1)
            self.label = "%s:%d" % (f.f_code.co_filename.rsplit("/", 1)[-1], f.f_lineno)
        except Exception:
            self.label = None

    def _owner_name(self):
        s = CURRENT
        if s is None or self.owner is None:
            return None
        return s.threads[self.owner].name

    def acquire(self, blocking=True, timeout=-1):
        s = CURRENT
        me = s.me() if s is not None else None
        if me is None or s.finished:
            self.count += 1
            return True
        if me.atomic:
            if self.owner is not None and self.owner != me.tid:
                raise HarnessError("atomic section needs a lock held by another thread")
            self.owner = me.tid
            self.count += 1
            return True
        s.yield_point("lock.acquire")
        while self.owner is not None and self.owner != me.tid:
            if not blocking:
                return False
            s.stats["lock_contended"] += 1
            s.block(("lock", id(self), self.label, self._owner_name))
        self.owner = me.tid
        self.count += 1
        return True

    def release(self):
        s = CURRENT
        me = s.me() if s is not None else None
        if self.count <= 0:
            raise RuntimeError("cannot release un-acquired lock")
        self.count -= 1
        if self.count == 0:
            self.owner = None
            if me is not None and not s.aborting and not s.finished:
                lid = id(self)
                s.wake(lambda on: on[0] == "lock" and on[1] == lid)
                if not me.atomic:
                    s.yield_point("lock.release")

    __enter__ = acquire

    def __exit__(self, *a):
        self.release()

    def locked(self):
        return self.owner is not None


class SimLock(SimRLock):
    def acquire(self, blocking=True, timeout=-1):
        s = CURRENT
        me = s.me() if s is not None else None
        if me is not None and self.owner == me.tid:
            s._fail("deadlock", {"self-deadlock": me.name})
            raise SimAbort()
        return SimRLock.acquire(self, blocking, timeout)

    __enter__ = acquire


class SimEvent:
    def __init__(self):
        self.flag = False

    def is_set(self):
        return self.flag

    isSet = is_set

    def clear(self):
        self.flag = False

    def set(self):
        s = CURRENT
        self.flag = True
        me = s.me() if s is not None else None
        if me is None or s.aborting or s.finished:
            return
        eid = id(self)
        s.wake(lambda on: on[0] == "wait" and on[1] == eid)
        s.yield_point("event.set")

    def wait(self, timeout=None):
        s = CURRENT
        me = s.me() if s is not None else None
        if me is None or s.finished:
            return self.flag
        s.yield_point("event.wait")
        if self.flag:
            return True
        s.tseq += 1
        seq = s.tseq
        if timeout is not None:
            heapq.heappush(s.timers, (s.now + max(0.0, timeout), seq, me.tid))
        s.block(("wait", id(self), seq))
        s.timers = [x for x in s.timers if x[1] != seq]
        heapq.heapify(s.timers)
        return self.flag


class _ThreadingProxy(types.ModuleType):
    """Stands in for the `threading` module inside rich modules: serves the sim
    classes for the synchronisation primitives and delegates everything else."""

    def __init__(self):
        super().__init__("threading")

    def __getattr__(self, name):
        if name == "RLock":
            return SimRLock
        if name == "Lock":
            return SimLock
        if name == "Event":
            return SimEvent
        if name in ("Condition", "Semaphore", "BoundedSemaphore", "Barrier", "Timer"):
            raise HarnessError("rich uses threading.%s, which dsim does not simulate" % name)
        return getattr(threading, name)


THREADING_PROXY = _ThreadingProxy()


def _patched_start(self):
    s = CURRENT
    me = s.me() if s is not None else None
    if me is None:
        return _ORIG_START(self)
    t = s.spawn(self.run, type(self).__name__, kind="helper")
    self._dsim = t
    s.event("thread-start", t.name)
    s.yield_point("thread.start")


def _patched_join(self, timeout=None):
    t = getattr(self, "_dsim", None)
    if t is None:
        return _ORIG_JOIN(self, timeout)
    s = CURRENT
    if s is None or s.me() is None:
        return
    s.yield_point("thread.join")
    while t.state != DONE:
        s.block(("join", t.tid))


def _patched_is_alive(self):
    t = getattr(self, "_dsim", None)
    if t is None:
        return _ORIG_IS_ALIVE(self)
    return t.state != DONE


def patch_threads():
    threading.Thread.start = _patched_start
    threading.Thread.join = _patched_join
    threading.Thread.is_alive = _patched_is_alive


def unpatch_threads():
    threading.Thread.start = _ORIG_START
    threading.Thread.join = _ORIG_JOIN
    threading.Thread.is_alive = _ORIG_IS_ALIVE


# ---------------------------------------------------------------------------
# pre-emption through sys.monitoring
#
# Only INSTRUCTION events are used.  LINE events are not deterministic across runs in
# one process: after the adaptive interpreter has specialised an attribute load into an
# inlined property call, CPython 3.12 reports a second LINE event for the calling line
# when the call returns, so the number of LINE events depends on how warm the code is.
# INSTRUCTION events carry no such history; "line granularity" is defined statically as
# the first instruction of every entry of code.co_lines() whose line differs from the
# previous entry, "opcode granularity" as every instruction.

_mon = sys.monitoring
TOOL = 4
_codes = {}  # code -> [basename, frozenset(line-start offsets), {offset: line}, every_instruction?]
_trace_ready = False


def _discover(files):
    seen = set()
    out = []

    def walk(co):
        if co in seen:
            return
        seen.add(co)
        out.append(co)
        for k in co.co_consts:
            if isinstance(k, types.CodeType):
                walk(k)

    for o in gc.get_objects():
        if isinstance(o, types.FunctionType):
            co = o.__code__
            if co.co_filename in files:
                walk(co)
    return out


def _line_starts(co):
    starts = {}
    prev = None
    for a, b, line in co.co_lines():
        if line is not None and line != prev:
            starts[a] = line
        prev = line
    return starts


def _on_instruction(code, offset):
    info = _codes[code]
    if not info[3] and offset not in info[1]:
        return
    s = CURRENT
    if s is None:
        return
    t = s.by_ident.get(_get_ident())
    if t is None or t.atomic:
        return
    line = info[2].get(offset)
    if line is not None:
        s.yield_point("line", (info[0], line))
    else:
        s.yield_point("op", (info[0], code.co_firstlineno, -offset))


def setup_tracing(line_files, opcode_files=()):
    """(Re)configure which rich source files yield at line / opcode granularity.
    Cheap (sub-millisecond) so it is called at the start of every run."""
    global _trace_ready
    import os

    if not _trace_ready:
        _mon.use_tool_id(TOOL, "dsim")
        _mon.register_callback(TOOL, _mon.events.INSTRUCTION, _on_instruction)
        _trace_ready = True
    line_files = set(line_files)
    opcode_files = set(opcode_files)
    found = _discover(line_files | opcode_files)
    for co in found:
        if co not in _codes:
            st = _line_starts(co)
            _codes[co] = [os.path.basename(co.co_filename), frozenset(st), st, False]
    for co, info in _codes.items():
        on = co.co_filename in line_files or co.co_filename in opcode_files
        info[3] = co.co_filename in opcode_files
        _mon.set_local_events(TOOL, co, _mon.events.INSTRUCTION if on else 0)
    return len(found)


def teardown_tracing():
    global _trace_ready
    if _trace_ready:
        for co in list(_codes):
            _mon.set_local_events(TOOL, co, 0)
        _mon.register_callback(TOOL, _mon.events.INSTRUCTION, None)
        _mon.free_tool_id(TOOL)
        _codes.clear()
        _trace_ready = False
