"""dsim.seams — puts the simulator between rich and every source of nondeterminism.

No hook in /repo is needed: clocks, files, width/height and the environment are
constructor arguments; locks / events are module globals of rich modules that
are rebound for the duration of a run; Thread.start/join are patched on the
class; pre-emption comes from sys.monitoring.
"""
import gc
import io
import os
import sys
import threading

from . import sched

REPO = os.environ.get("DSIM_REPO", "/repo")
if REPO not in sys.path:
    sys.path.insert(0, REPO)

_ORIG = {
    "RLock": threading.RLock,
    "Lock": threading.Lock,
    "Event": threading.Event,
    "Condition": threading.Condition,
}
_SIM = {"RLock": sched.SimRLock, "Lock": sched.SimLock, "Event": sched.SimEvent}

TARGET_MODULES = (
    "rich.console", "rich.live", "rich.live_render", "rich.progress", "rich.status",
    "rich.file_proxy", "rich.theme",
)
_imported = False


def import_rich():
    global _imported
    import importlib

    for m in TARGET_MODULES + ("rich.ansi", "rich.text", "rich.table", "rich.panel", "rich.rule",
                               "rich.spinner", "rich.style", "rich.segment", "rich.default_styles",
                               "rich.control", "rich.themes", "rich.cells", "rich.color"):
        importlib.import_module(m)
    import rich

    if not os.path.realpath(rich.__file__).startswith(os.path.realpath(REPO) + os.sep):
        raise sched.HarnessError("rich imported from %s, not from %s" % (rich.__file__, REPO))
    _imported = True


def target_files(names=TARGET_MODULES):
    return [sys.modules[n].__file__ for n in names if n in sys.modules]


def file_of(short):
    return sys.modules["rich." + short].__file__


class Seams:
    """Context manager active for exactly one run."""

    def __init__(self, line_modules=TARGET_MODULES, opcode_modules=("rich.progress", "rich.live")):
        self.line_modules = line_modules
        self.opcode_modules = opcode_modules
        self.rebound = []
        self.saved_stdio = None
        self.stdout = None
        self.stderr = None

    def __enter__(self):
        if not _imported:
            import_rich()
        for name, mod in list(sys.modules.items()):
            if mod is None or not (name == "rich" or name.startswith("rich.")):
                continue
            d = getattr(mod, "__dict__", None)
            if d is None:
                continue
            for k, v in list(d.items()):
                if v is threading:
                    self.rebound.append((d, k, v))
                    d[k] = sched.THREADING_PROXY
                else:
                    for nm, orig in _ORIG.items():
                        if v is orig:
                            if nm not in _SIM:
                                raise sched.HarnessError("%s binds threading.%s, not simulated" % (name, nm))
                            self.rebound.append((d, k, v))
                            d[k] = _SIM[nm]
        sched.patch_threads()
        sched.setup_tracing(target_files(self.line_modules), target_files(self.opcode_modules))
        reset_caches()
        self.saved_stdio = (sys.stdout, sys.stderr)
        self.stdout = io.StringIO()
        self.stderr = io.StringIO()
        sys.stdout, sys.stderr = self.stdout, self.stderr
        gc.collect()
        gc.disable()
        return self

    def __exit__(self, *a):
        gc.enable()
        sys.stdout, sys.stderr = self.saved_stdio
        sched.unpatch_threads()
        for d, k, v in self.rebound:
            d[k] = v
        self.rebound = []
        return False


def reset_caches():
    """State that survives from run to run inside rich and could make a run depend
    on its predecessors in the same process."""
    from rich.style import Style
    from rich.default_styles import DEFAULT_STYLES

    Style.parse.cache_clear()
    Style.normalize.cache_clear()
    for st in DEFAULT_STYLES.values():
        st._ansi = None
    try:
        from rich import themes

        for st in themes.DEFAULT.styles.values():
            st._ansi = None
    except Exception:
        pass


class SimClock:
    """The only clock rich sees.  Modes (monotone in all of them):
    frozen  — advances only when the scheduler fires a timer;
    jitter  — every read advances the clock by a seeded amount;
    faulty  — jitter plus injected jumps, stalls and 1e-9 increments."""

    def __init__(self, sim, rng, mode="frozen", jitter=0.01, p_jump=0.0, p_stall=0.0, p_tiny=0.0):
        self.sim = sim
        self.rng = rng
        self.mode = mode
        self.jitter = jitter
        self.p_jump = p_jump
        self.p_stall = p_stall
        self.p_tiny = p_tiny
        self.stall_left = 0
        self.fired = {"clock_jump": 0, "clock_stall": 0, "clock_tiny": 0, "clock_reads": 0}

    def time(self):
        s = self.sim
        s.yield_point("clock")
        self.fired["clock_reads"] += 1
        if self.mode != "frozen" and s.me() is not None and not s.me().atomic:
            r = self.rng.random()
            if self.stall_left > 0:
                self.stall_left -= 1
            elif self.mode == "faulty" and r < self.p_jump:
                s.now += 10 ** (3 + 3 * self.rng.random())
                self.fired["clock_jump"] += 1
            elif self.mode == "faulty" and r < self.p_jump + self.p_stall:
                self.stall_left = 1 + int(self.rng.random() * 4)
                self.fired["clock_stall"] += 1
            elif self.mode == "faulty" and r < self.p_jump + self.p_stall + self.p_tiny:
                s.now += 1e-9
                self.fired["clock_tiny"] += 1
            else:
                s.now += self.rng.random() * self.jitter
        t = s.now
        s.event("clock", round(t, 9))
        return t

    __call__ = time

    def datetime(self):
        from datetime import datetime, timedelta

        return datetime(2021, 2, 3, 4, 5, 6) + timedelta(seconds=self.sim.now)


class SimFile:
    """File seam: every write is a yield point, is logged with its global sequence
    number and handed to `on_write` (the oracle) atomically."""

    encoding = "utf-8"

    def __init__(self, sim, tty=True, name="file"):
        self.sim = sim
        self.tty = tty
        self.name = name
        self.writes = []  # (seq, tid, text)
        self.on_write = None
        self.fail_at = None  # k-th write raises OSError (unclaimed probe)
        self.nwrites = 0
        self.flushes = 0
        self.armed = {}  # tid -> "write" | "flush": that thread's next write / flush raises OSError
        self.io_errors = {"write": 0, "flush": 0}

    def write(self, text):
        s = self.sim
        s.yield_point("write")
        self.nwrites += 1
        if self.fail_at is not None and self.nwrites == self.fail_at:
            s.event("write-error", self.nwrites)
            raise OSError(5, "injected write error")
        me = s.me()
        tid = me.tid if me is not None else -1
        if self.armed and self.armed.get(tid) == "write2":
            # the device takes this write and refuses the next one of the same operation (an output
            # operation that issues several writes meets the full disk half way through)
            self.armed[tid] = "write"
        elif self.armed and self.armed.get(tid) == "write":
            # the device refuses the write: nothing of it reaches the file
            del self.armed[tid]
            self.io_errors["write"] += 1
            s.event("write-error", self.nwrites, tid=tid)
            raise OSError(28, "injected: no space left on device")
        seq = s.event("write", (self.name, scrub_links(text)), tid=tid)
        self.writes.append((seq, tid, text))
        if self.on_write is not None:
            with s.atomic():
                self.on_write(seq, tid, text)
        return len(text)

    def flush(self):
        self.flushes += 1
        if self.armed:
            me = self.sim.me()
            tid = me.tid if me is not None else -1
            if self.armed.get(tid) == "flush":
                # what was written so far stays written; the flush itself reports an error
                del self.armed[tid]
                self.io_errors["flush"] += 1
                self.sim.event("flush-error", self.flushes, tid=tid)
                raise OSError(32, "injected: broken pipe at flush")

    def isatty(self):
        return self.tty

    def fileno(self):
        raise OSError("SimFile has no fileno")

    def getvalue(self):
        return "".join(w[2] for w in self.writes)


import re

_LINK_ID = re.compile(r"\x1b\]8;id=[^;]*;")


def scrub_links(text):
    """Style._link_id is built from real time and global randomness; erase it
    before anything is logged or digested."""
    if "\x1b]8;" in text:
        return _LINK_ID.sub("\x1b]8;id=X;", text)
    return text
