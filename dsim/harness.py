"""dsim.harness — runs cases of a check under the scheduler, in many processes;
replay, minimisation, known-findings protocol and evidence files.

A *check* is an object with
    prop, level, line_modules, opcode_modules(case)
    gen(rng, tier, idx)        -> case (JSON-serialisable dict)
    setup(sim, case, env)      -> ctx       (spawns client threads; inside Seams)
    finish(sim, case, ctx)     -> dict(violations=[...], faults={}, probes={}, nontrivial=bool, sample=...)
    shrink(case)               -> iterable of smaller cases
A violation is {"oracle", "sig", "msg", "seq"}; "sig" is what KNOWN_FINDINGS matches.
"""
import hashlib
import json
import os
import random
import re
import sys
import time
import traceback

from . import sched, seams

MASK = (1 << 64) - 1
VERIF = os.path.dirname(os.path.dirname(os.path.abspath(__file__)))


def splitmix64(x):
    x = (x + 0x9E3779B97F4A7C15) & MASK
    z = x
    z = ((z ^ (z >> 30)) * 0xBF58476D1CE4E5B9) & MASK
    z = ((z ^ (z >> 27)) * 0x94D049BB133111EB) & MASK
    return z ^ (z >> 31)


def run_seed(verif_seed, prop, idx):
    h = int.from_bytes(hashlib.sha256(prop.encode()).digest()[:8], "big")
    return splitmix64(splitmix64(verif_seed & MASK) ^ h ^ splitmix64(idx))


def draw_policy(rng, weights=(0.5, 0.3, 0.2)):
    """Swarm: one scheduling policy per run."""
    r = rng.random()
    if r < weights[0]:
        p = rng.choice([0.002, 0.005, 0.01, 0.02, 0.05, 0.1, 0.3])
        return {"kind": "random", "p": p}
    if r < weights[0] + weights[1]:
        return {"kind": "pct", "d": rng.choice([1, 2, 3]), "est": None}
    if len(weights) > 3 and r >= weights[0] + weights[1] + weights[2]:
        return {"kind": "race"}
    return {"kind": "single", "d": rng.choice([1, 1, 2, 3]), "est": None}


def make_policy(spec, seed):
    rng = random.Random(splitmix64(seed ^ 0x5EED5EED))
    k = spec["kind"]
    if k == "random":
        return sched.RandomWalk(rng, spec["p"])
    if k == "pct":
        return sched.PCT(rng, spec["d"], spec["est"])
    if k == "single":
        return sched.Single(rng, spec["d"], spec["est"])
    if k == "none":
        return sched.Single(rng, 0, 1)
    if k == "race":
        return sched.Race(rng, spec.get("plan"))
    if k == "script":
        return sched.Scripted(sched.unrle(spec["schedule"]), lenient=spec.get("lenient", False))
    raise ValueError(k)


class Env:
    """What setup() gets besides the sim: rngs for clock faults etc., seeded from the run seed."""

    def __init__(self, seed):
        self.seed = seed
        self.clock_rng = random.Random(splitmix64(seed ^ 0xC10C))
        self.fault_rng = random.Random(splitmix64(seed ^ 0xFA017))


_SRC = {}
_ATTR = re.compile(r"\.([A-Za-z_]\w*)")
_STORE = re.compile(r"\.([A-Za-z_]\w*)\s*(?:=(?!=)|\+=|-=)")


def _line_attrs(site):
    """(attribute names mentioned, attribute names stored) on a source line of rich, textually."""
    if site not in _SRC:
        import linecache
        import os

        path = os.path.join(os.environ.get("DSIM_REPO", "/repo"), "rich", site[0])
        text = linecache.getline(path, site[1])
        stores = frozenset(_STORE.findall(text))
        if stores:
            # stores in constructors initialise an object nobody shares yet
            for ln in range(site[1], 0, -1):
                t = linecache.getline(path, ln).lstrip()
                if t.startswith("def "):
                    if t.startswith(("def __init__", "def __post_init__")):
                        stores = frozenset()
                    break
        t = text.lstrip()
        check = t.startswith(("if ", "elif ", "while ", "assert ")) or " if " in t or " and " in t or " or " in t
        _SRC[site] = (frozenset(_ATTR.findall(text)), stores, check)
    return _SRC[site]


def race_plan(trace, rng, window=10):
    """From the yield trace of a dry run: pick a check-then-act candidate (thread A mentions attribute X
    on two different lines within `window` of its own line yields) whose X another thread B stores, and
    the operation boundary at which B is held back beforehand.  None if the run has no such pair."""
    per = {}
    stores = {}
    nops = {}
    for tid, y, kind, site, tkind in trace:
        if kind == "op" and site is None:
            nops[tid] = nops.get(tid, 0) + 1
        if kind != "line" or site is None:
            continue
        names, st, chk = _line_attrs(site)
        per.setdefault(tid, []).append((site, names, chk))
        for x in st:
            stores.setdefault(x, set()).add((tid, site, nops.get(tid, 0), tkind))
    cands = {}
    for tid, seq in per.items():
        occ = {}
        for j in range(len(seq)):
            sj, nj, _ = seq[j]
            occ[sj] = occ.get(sj, 0) + 1
            if not nj or j == 0:
                continue
            for i in range(max(0, j - window), j):
                si, ni, chk = seq[i]
                if si[0] != sj[0] or si[1] == sj[1] or not chk:
                    continue  # (the earlier line must test something: check-then-act)
                for x in ni & nj:
                    if any(b != tid for b, _, _, _ in stores.get(x, ())):
                        cands.setdefault(x, set()).add((tid, sj, occ[sj]))
    if not cands:
        return None
    x = rng.choice(sorted(cands))
    a, a_site, a_occ = rng.choice(sorted(cands[x]))
    b, b_site, opno, bkind = rng.choice(sorted(s for s in stores[x] if s[0] != a))
    # B is held at one of its operation boundaries before the operation that stores (the store may
    # need a whole earlier operation of B to run first, e.g. the stop() before a start())
    hold = max(1, opno - rng.choice([0, 1, 1, 2])) if opno else 0
    return {"attr": x, "A": a, "a_site": list(a_site), "a_occ": a_occ, "B": b, "b_site": list(b_site), "hold_op": hold}


def execute(check, case, spec, seed, want_log=False, want_trace=False):
    """One run of one case under one policy.  Returns a result dict."""
    if spec["kind"] in ("pct", "single") and spec.get("est") is None:
        dry = execute(check, case, {"kind": "none"}, seed)
        spec = dict(spec, est=max(1, dry["steps"]))
        if dry["violations"] or dry["harness_error"]:
            dry["policy"] = {"kind": "none"}
            return dry
    if spec["kind"] == "race" and "plan" not in spec:
        dry = execute(check, case, {"kind": "none"}, seed, want_trace=True)
        if dry["violations"] or dry["harness_error"]:
            dry["policy"] = {"kind": "none"}
            dry.pop("trace", None)
            return dry
        spec = dict(spec, plan=race_plan(dry.pop("trace"), random.Random(splitmix64(seed ^ 0x7ACE))))
    policy = make_policy(spec, seed)
    sim = sched.Sim(policy, max_steps=case.get("max_steps", 2_000_000), max_vtime=case.get("max_vtime", 1.0e4))
    res = {
        "violations": [], "harness_error": None, "policy": spec, "steps": 0, "vtime": 0.0,
        "switches": 0, "switch_sig": "", "faults": {}, "probes": {}, "nontrivial": False,
        "schedule": None, "digest": None, "sample": None, "stats": {},
    }
    if want_trace:
        sim.trace = []
    try:
        with seams.Seams(line_modules=check.line_modules, opcode_modules=check.opcode_modules(case)):
            env = Env(seed)
            ctx = check.setup(sim, case, env)
            sim.run()
            fin = check.finish(sim, case, ctx)
    except sched.HarnessError as e:
        res["harness_error"] = "HarnessError: %s" % e
        return res
    except Exception:
        res["harness_error"] = traceback.format_exc()
        return res
    res.update(fin)
    res["steps"] = sim.step
    res["vtime"] = sim.now
    res["switches"] = sim.switches
    res["switch_sig"] = sim.switch_sig.hexdigest()[:16]
    res["stats"] = dict(sim.stats)
    res["schedule"] = sched.rle(sim.decisions)
    res["digest"] = sim.digest()
    res["sites"] = len(sim.sites_hit)
    if sim.failure is not None:
        kind, detail = sim.failure
        if kind in ("deadlock", "step-cap", "vtime-cap"):
            res["violations"].insert(0, {
                "oracle": "liveness", "sig": kind, "seq": sim.seq,
                "msg": "%s: %s" % (kind, json.dumps(detail, default=str)),
            })
        else:
            res["harness_error"] = "%s: %s" % (kind, detail)
    if want_log:
        res["log"] = sim.log
    if want_trace:
        res["trace"] = sim.trace
    return res


# ---------------------------------------------------------------------------
# replay files


def replay_doc(check, case, seed, idx, verif_seed, res, violation):
    return {
        "property": check.prop, "verif_seed": verif_seed, "idx": idx, "seed": seed,
        "case": case, "policy": res["policy"], "schedule": res["schedule"],
        "violation": violation, "digest": res["digest"],
    }


def run_replay(check, doc, lenient=False):
    spec = {"kind": "script", "schedule": doc["schedule"], "lenient": lenient}
    return execute(check, doc["case"], spec, doc["seed"])


def reproduce_known(check, doc, sig, tries=60, budget_s=30.0):
    """A stored reproducer of a known finding: exact schedule first; if the code under
    test has changed shape (the schedule no longer fits) the same case is replayed leniently
    and then searched with seeded schedules.  Returns (reproduced, how, result)."""
    res = run_replay(check, doc)
    if not res["harness_error"] and same_violation(res, sig) is not None:
        return True, "exact-schedule", res
    res = run_replay(check, doc, lenient=True)
    if not res["harness_error"] and same_violation(res, sig) is not None:
        return True, "lenient-schedule", res
    found = find_schedule(check, doc["case"], sig, doc["seed"], tries, time.time() + budget_s)
    if found is not None:
        return True, "schedule-search", found[0]
    return False, "not-reproduced", res


def same_violation(res, sig):
    for v in res["violations"]:
        if v["sig"] == sig:
            return v
    return None


# ---------------------------------------------------------------------------
# minimisation


def find_schedule(check, case, sig, seed, tries, deadline, first_spec=None):
    """Seeded search for a schedule of `case` that shows a violation with signature sig."""
    specs = []
    if first_spec is not None:
        specs.append((first_spec, seed))
    rng = random.Random(splitmix64(seed ^ 0x3141))
    specs.append(({"kind": "none"}, seed))
    for i in range(tries):
        specs.append((draw_policy(rng), splitmix64(seed + i + 1)))
    for spec, s in specs:
        if time.time() > deadline:
            return None
        r = execute(check, case, dict(spec), s)
        if r["harness_error"]:
            continue
        v = same_violation(r, sig)
        if v is not None:
            return r, v, s
    return None


def minimise(check, case, res, violation, seed, budget_s=60.0, tries=60):
    """ddmin-style: shrink the case (re-searching schedules), then the schedule."""
    deadline = time.time() + budget_s
    sig = violation["sig"]
    best = (case, res, violation, seed)
    progress = True
    while progress and time.time() < deadline:
        progress = False
        for cand in check.shrink(best[0]):
            if time.time() > deadline:
                break
            # try the old schedule leniently first, then search
            lspec = {"kind": "script", "schedule": best[1]["schedule"], "lenient": True}
            found = find_schedule(check, cand, sig, best[3], tries, deadline, first_spec=lspec)
            if found is not None:
                r, v, s = found
                best = (cand, r, v, s)
                progress = True
                break
    # schedule: drop context switches one at a time (lenient replay), keep if it still fails
    case, res, violation, seed = best
    sched_pairs = [list(p) for p in res["schedule"]]
    i = 0
    while i < len(sched_pairs) and time.time() < deadline and len(sched_pairs) > 1:
        cand = sched_pairs[:i] + sched_pairs[i + 1:]
        # merging the neighbour runs = the switch at i never happens
        spec = {"kind": "script", "schedule": cand, "lenient": True}
        r = execute(check, case, spec, seed)
        v = None if r["harness_error"] else same_violation(r, sig)
        if v is not None and len(r["schedule"]) < len(sched_pairs):
            res, violation = r, v
            sched_pairs = [list(p) for p in r["schedule"]]
        else:
            i += 1
    # re-record strictly
    final = execute(check, case, {"kind": "script", "schedule": res["schedule"], "lenient": False}, seed)
    v = None if final["harness_error"] else same_violation(final, sig)
    if v is None:
        return best[0], best[1], best[2], best[3]
    return case, final, v, seed


# ---------------------------------------------------------------------------
# known findings


def load_known(prop):
    path = os.path.join(VERIF, "KNOWN_FINDINGS.txt")
    out = []
    if not os.path.exists(path):
        return out
    for line in open(path):
        line = line.strip()
        if not line.startswith("open:"):
            continue
        head, _, what = line[5:].partition("::")
        kv = dict(p.split("=", 1) for p in head.split() if "=" in p)
        if kv.get("property") == prop:
            out.append({"id": kv.get("id"), "sig": kv.get("sig"), "replay": kv.get("replay"), "what": what.strip()})
    return out
