"""dsim.harness — runs cases of a check under the scheduler, in many processes;
replay, minimisation, known-findings protocol and evidence files.

A *check* is an object with
    prop, level, line_modules, opcode_modules(case)
    gen(rng, tier, idx)        -> case (JSON-serialisable dict)
    setup(sim, case, env)      -> ctx       (spawns client threads; inside Seams)
    finish(sim, case, ctx)     -> dict(violations=[...], faults={}, probes={}, nontrivial=bool, sample=...)
    shrink(case)               -> iterable of smaller cases
A violation is {"oracle", "sig", "msg", "seq"}; "sig" is what KNOWN_FINDINGS matches.
"""
import hashlib
import json
import os
import random
import sys
import time
import traceback

from . import sched, seams

MASK = (1 << 64) - 1
VERIF = os.path.dirname(os.path.dirname(os.path.abspath(__file__)))


def splitmix64(x):
    x = (x + 0x9E3779B97F4A7C15) & MASK
    z = x
    z = ((z ^ (z >> 30)) * 0xBF58476D1CE4E5B9) & MASK
    z = ((z ^ (z >> 27)) * 0x94D049BB133111EB) & MASK
    return z ^ (z >> 31)


def run_seed(verif_seed, prop, idx):
    h = int.from_bytes(hashlib.sha256(prop.encode()).digest()[:8], "big")
    return splitmix64(splitmix64(verif_seed & MASK) ^ h ^ splitmix64(idx))


def draw_policy(rng, weights=(0.5, 0.3, 0.2)):
    """Swarm: one scheduling policy per run."""
    r = rng.random()
    if r < weights[0]:
        p = rng.choice([0.002, 0.005, 0.01, 0.02, 0.05, 0.1, 0.3])
        return {"kind": "random", "p": p}
    if r < weights[0] + weights[1]:
        return {"kind": "pct", "d": rng.choice([1, 2, 3]), "est": None}
    return {"kind": "single", "d": rng.choice([1, 1, 2, 3]), "est": None}


def make_policy(spec, seed):
    rng = random.Random(splitmix64(seed ^ 0x5EED5EED))
    k = spec["kind"]
    if k == "random":
        return sched.RandomWalk(rng, spec["p"])
    if k == "pct":
        return sched.PCT(rng, spec["d"], spec["est"])
    if k == "single":
        return sched.Single(rng, spec["d"], spec["est"])
    if k == "none":
        return sched.Single(rng, 0, 1)
    if k == "script":
        return sched.Scripted(sched.unrle(spec["schedule"]), lenient=spec.get("lenient", False))
    raise ValueError(k)


class Env:
    """What setup() gets besides the sim: rngs for clock faults etc., seeded from the run seed."""

    def __init__(self, seed):
        self.seed = seed
        self.clock_rng = random.Random(splitmix64(seed ^ 0xC10C))
        self.fault_rng = random.Random(splitmix64(seed ^ 0xFA017))


def execute(check, case, spec, seed, want_log=False):
    """One run of one case under one policy.  Returns a result dict."""
    if spec["kind"] in ("pct", "single") and spec.get("est") is None:
        dry = execute(check, case, {"kind": "none"}, seed)
        spec = dict(spec, est=max(1, dry["steps"]))
        if dry["violations"] or dry["harness_error"]:
            dry["policy"] = {"kind": "none"}
            return dry
    policy = make_policy(spec, seed)
    sim = sched.Sim(policy, max_steps=case.get("max_steps", 2_000_000), max_vtime=case.get("max_vtime", 1.0e4))
    res = {
        "violations": [], "harness_error": None, "policy": spec, "steps": 0, "vtime": 0.0,
        "switches": 0, "switch_sig": "", "faults": {}, "probes": {}, "nontrivial": False,
        "schedule": None, "digest": None, "sample": None, "stats": {},
    }
    try:
        with seams.Seams(line_modules=check.line_modules, opcode_modules=check.opcode_modules(case)):
            env = Env(seed)
            ctx = check.setup(sim, case, env)
            sim.run()
            fin = check.finish(sim, case, ctx)
    except sched.HarnessError as e:
        res["harness_error"] = "HarnessError: %s" % e
        return res
    except Exception:
        res["harness_error"] = traceback.format_exc()
        return res
    res.update(fin)
    res["steps"] = sim.step
    res["vtime"] = sim.now
    res["switches"] = sim.switches
    res["switch_sig"] = sim.switch_sig.hexdigest()[:16]
    res["stats"] = dict(sim.stats)
    res["schedule"] = sched.rle(sim.decisions)
    res["digest"] = sim.digest()
    res["sites"] = len(sim.sites_hit)
    if sim.failure is not None:
        kind, detail = sim.failure
        if kind in ("deadlock", "step-cap", "vtime-cap"):
            res["violations"].insert(0, {
                "oracle": "liveness", "sig": kind, "seq": sim.seq,
                "msg": "%s: %s" % (kind, json.dumps(detail, default=str)),
            })
        else:
            res["harness_error"] = "%s: %s" % (kind, detail)
    if want_log:
        res["log"] = sim.log
    return res


# ---------------------------------------------------------------------------
# replay files


def replay_doc(check, case, seed, idx, verif_seed, res, violation):
    return {
        "property": check.prop, "verif_seed": verif_seed, "idx": idx, "seed": seed,
        "case": case, "policy": res["policy"], "schedule": res["schedule"],
        "violation": violation, "digest": res["digest"],
    }


def run_replay(check, doc, lenient=False):
    spec = {"kind": "script", "schedule": doc["schedule"], "lenient": lenient}
    return execute(check, doc["case"], spec, doc["seed"])


def reproduce_known(check, doc, sig, tries=60, budget_s=30.0):
    """A stored reproducer of a known finding: exact schedule first; if the code under
    test has changed shape (the schedule no longer fits) the same case is replayed leniently
    and then searched with seeded schedules.  Returns (reproduced, how, result)."""
    res = run_replay(check, doc)
    if not res["harness_error"] and same_violation(res, sig) is not None:
        return True, "exact-schedule", res
    res = run_replay(check, doc, lenient=True)
    if not res["harness_error"] and same_violation(res, sig) is not None:
        return True, "lenient-schedule", res
    found = find_schedule(check, doc["case"], sig, doc["seed"], tries, time.time() + budget_s)
    if found is not None:
        return True, "schedule-search", found[0]
    return False, "not-reproduced", res


def same_violation(res, sig):
    for v in res["violations"]:
        if v["sig"] == sig:
            return v
    return None


# ---------------------------------------------------------------------------
# minimisation


def find_schedule(check, case, sig, seed, tries, deadline, first_spec=None):
    """Seeded search for a schedule of `case` that shows a violation with signature sig."""
    specs = []
    if first_spec is not None:
        specs.append((first_spec, seed))
    rng = random.Random(splitmix64(seed ^ 0x3141))
    specs.append(({"kind": "none"}, seed))
    for i in range(tries):
        specs.append((draw_policy(rng), splitmix64(seed + i + 1)))
    for spec, s in specs:
        if time.time() > deadline:
            return None
        r = execute(check, case, dict(spec), s)
        if r["harness_error"]:
            continue
        v = same_violation(r, sig)
        if v is not None:
            return r, v, s
    return None


def minimise(check, case, res, violation, seed, budget_s=60.0, tries=60):
    """ddmin-style: shrink the case (re-searching schedules), then the schedule."""
    deadline = time.time() + budget_s
    sig = violation["sig"]
    best = (case, res, violation, seed)
    progress = True
    while progress and time.time() < deadline:
        progress = False
        for cand in check.shrink(best[0]):
            if time.time() > deadline:
                break
            # try the old schedule leniently first, then search
            lspec = {"kind": "script", "schedule": best[1]["schedule"], "lenient": True}
            found = find_schedule(check, cand, sig, best[3], tries, deadline, first_spec=lspec)
            if found is not None:
                r, v, s = found
                best = (cand, r, v, s)
                progress = True
                break
    # schedule: drop context switches one at a time (lenient replay), keep if it still fails
    case, res, violation, seed = best
    sched_pairs = [list(p) for p in res["schedule"]]
    i = 0
    while i < len(sched_pairs) and time.time() < deadline and len(sched_pairs) > 1:
        cand = sched_pairs[:i] + sched_pairs[i + 1:]
        # merging the neighbour runs = the switch at i never happens
        spec = {"kind": "script", "schedule": cand, "lenient": True}
        r = execute(check, case, spec, seed)
        v = None if r["harness_error"] else same_violation(r, sig)
        if v is not None and len(r["schedule"]) < len(sched_pairs):
            res, violation = r, v
            sched_pairs = [list(p) for p in r["schedule"]]
        else:
            i += 1
    # re-record strictly
    final = execute(check, case, {"kind": "script", "schedule": res["schedule"], "lenient": False}, seed)
    v = None if final["harness_error"] else same_violation(final, sig)
    if v is None:
        return best[0], best[1], best[2], best[3]
    return case, final, v, seed


# ---------------------------------------------------------------------------
# known findings


def load_known(prop):
    path = os.path.join(VERIF, "KNOWN_FINDINGS.txt")
    out = []
    if not os.path.exists(path):
        return out
    for line in open(path):
        line = line.strip()
        if not line.startswith("open:"):
            continue
        head, _, what = line[5:].partition("::")
        kv = dict(p.split("=", 1) for p in head.split() if "=" in p)
        if kv.get("property") == prop:
            out.append({"id": kv.get("id"), "sig": kv.get("sig"), "replay": kv.get("replay"), "what": what.strip()})
    return out
