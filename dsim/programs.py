"""dsim.programs — JSON descriptors -> real rich renderables, and 'pristine' renders
(the same renderable rendered by a second, hook-free, single-threaded Console of the
same width; rich's layout code is trusted for content, never for cursor control)."""
import io

from . import term


class InjectedFault(Exception):
    def __init__(self, fault_id):
        super().__init__("injected fault %s" % fault_id)
        self.fault_id = fault_id


class InjectedInterrupt(BaseException):
    """Like InjectedFault but not an Exception subclass (what Ctrl-C / SystemExit look like)."""

    def __init__(self, fault_id):
        super().__init__("injected interrupt %s" % fault_id)
        self.fault_id = fault_id


FAULTS = (InjectedFault, InjectedInterrupt)


class FaultCounter:
    """Shared by all faulty renderables of one run: raises at the k-th render call
    (once, or from k on)."""

    def __init__(self, k=None, persistent=False, fault_id="F", base=False):
        self.exc_class = InjectedInterrupt if base else InjectedFault
        self.k = k
        self.persistent = persistent
        self.calls = 0
        self.fired = 0
        self.fault_id = fault_id
        self.on_fire = None

    def tick(self):
        i = self.calls
        self.calls += 1
        if self.k is not None and (i == self.k or (self.persistent and i > self.k)):
            self.fired += 1
            if self.on_fire is not None:
                self.on_fire()
            raise self.exc_class(self.fault_id)


class Faulty:
    """Wraps a renderable; counts render calls and raises where the fault plan says."""

    def __init__(self, inner, counter):
        self.inner = inner
        self.counter = counter

    def __rich_console__(self, console, options):
        self.counter.tick()
        yield self.inner

    def __bool__(self):
        # transparent to truth tests: code under test may treat an empty renderable ("" or an
        # empty Text) specially
        try:
            return bool(self.inner)
        except Exception:
            return True


def unwrap(r):
    while isinstance(r, Faulty):
        r = r.inner
    return r


def build(desc, counter=None):
    from rich.panel import Panel
    from rich.table import Table
    from rich.text import Text
    from rich.console import RenderGroup

    t = desc["t"]
    if t == "text":
        r = Text("\n".join(desc["lines"]), style=desc.get("style") or "")
        if desc.get("no_wrap"):
            r.no_wrap = True
    elif t == "markup":
        r = desc["s"]
    elif t == "empty":
        r = ""
    elif t == "table":
        r = Table(*desc["head"]) if desc.get("head") else Table.grid()
        for row in desc["rows"]:
            r.add_row(*row)
    elif t == "panel":
        r = Panel(build(desc["body"]), title=desc.get("title"))
    elif t == "group":
        r = RenderGroup(*[build(d) for d in desc["items"]])
    else:
        raise ValueError(t)
    if counter is not None:
        r = Faulty(r, counter)
    return r


class Pristine:
    """Renders renderables on a hook-free console of the same geometry and turns the
    bytes into screen rows (cells with styles) through the terminal model."""

    def __init__(self, width, height, color_system, clock=None, terminal=True, no_color=False):
        self.terminal = terminal
        self.no_color = no_color
        self.width = width
        self.height = height
        self.color_system = color_system
        self.clock = clock

    def console(self):
        from rich.console import Console

        kw = {}
        if self.clock is not None:
            kw = {"get_time": self.clock.time, "get_datetime": self.clock.datetime}
        return Console(file=io.StringIO(), width=self.width, height=self.height, force_terminal=self.terminal,
                       color_system=self.color_system, _environ={}, log_time=False, log_path=False, no_color=self.no_color, **kw)

    def bytes(self, fn):
        c = self.console()
        fn(c)
        return c.file.getvalue()

    def rows(self, fn):
        """fn(console) prints something; returns the list of rows (cells) it occupies."""
        return self.rows_of_bytes(self.bytes(fn))

    def rows_of_bytes(self, data):
        scr = term.Screen(self.width, 100000)
        scr.feed(data)
        rows = [scr.cells(r) for r in range(len(scr.rows))]
        # a print ends with a newline: the last (empty) row is the cursor's, not content
        if data.endswith("\n") and rows and not rows[-1]:
            rows.pop()
        return rows

    def render_rows(self, renderable):
        import copy

        r = copy.deepcopy(unwrap(renderable))
        return self.rows(lambda c: c.print(r))


def rows_text(rows):
    return ["".join(c for c, _ in row).rstrip(" ") for row in rows]
