"""dsim.runner — command line driver: batches over 16 processes, self-tests,
known findings, violation reporting, evidence files."""
import argparse
import concurrent.futures as cf
import faulthandler
import importlib
import json
import multiprocessing
import os
import subprocess
import sys
import time

from . import harness, sched

VERIF = harness.VERIF

TIERS = {
    # seconds of search, chunk size, determinism self-test seeds
    "quick": {"budget": 55.0, "chunk": 24, "selftest": 12},
    "thorough": {"budget": 840.0, "chunk": 16, "selftest": 96},
}


def load_check(prop):
    mod = importlib.import_module("checks." + prop.lower())
    return mod.CHECK


def one_run(check, tier, verif_seed, idx, with_subcases=True):
    """Returns [(seed, case, res), ...]: the generated case and, for checks that
    enumerate fault points, one further run per crash point of that history."""
    import random

    seed = harness.run_seed(verif_seed, check.prop, idx)
    rng = random.Random(seed)
    case = check.gen(rng, tier, idx)
    if hasattr(check, "policy"):
        spec = check.policy(case, rng)
    else:
        spec = harness.draw_policy(rng, getattr(check, "policy_weights", (0.5, 0.3, 0.2)))
    res = harness.execute(check, case, spec, seed)
    out = [(seed, case, res)]
    if with_subcases and hasattr(check, "expand"):
        for j, sub in enumerate(check.expand(case, res, rng, tier)):
            sseed = harness.splitmix64(seed + 1 + j)
            sspec = check.policy(sub, rng) if hasattr(check, "policy") else harness.draw_policy(rng)
            out.append((sseed, sub, harness.execute(check, sub, sspec, sseed)))
    return out


def work_chunk(args):
    prop, tier, verif_seed, start, count, deadline = args
    faulthandler.dump_traceback_later(600, exit=True)
    check = load_check(prop)
    agg = {
        "runs": 0, "steps": 0, "vtime": 0.0, "switches": 0, "faults": {}, "probes": {}, "policies": {},
        "sigs": set(), "nontrivial": set(), "violations": [], "harness_errors": [], "samples": [],
        "sites": 0, "kinds": {}, "next": start,
    }
    for idx in range(start, start + count):
        if time.time() > deadline:
            break
        agg["next"] = idx + 1
        faulthandler.cancel_dump_traceback_later()
        faulthandler.dump_traceback_later(900, exit=True)  # watchdog per history, not per chunk
        for seed, case, res in one_run(check, tier, verif_seed, idx):
            agg["runs"] += 1
            if res["harness_error"]:
                agg["harness_errors"].append({"idx": idx, "error": res["harness_error"][-1500:]})
                continue
            agg["steps"] += res["steps"]
            agg["vtime"] += res["vtime"]
            agg["switches"] += res["switches"]
            agg["sites"] = max(agg["sites"], res.get("sites", 0))
            for k, v in res["faults"].items():
                agg["faults"][k] = agg["faults"].get(k, 0) + v
            for k, v in res["probes"].items():
                agg["probes"][k] = agg["probes"].get(k, 0) + v
            pk = res["policy"]["kind"]
            agg["policies"][pk] = agg["policies"].get(pk, 0) + 1
            kd = case.get("kind", "-")
            agg["kinds"][kd] = agg["kinds"].get(kd, 0) + 1
            agg["sigs"].add(res["switch_sig"])
            if res["nontrivial"]:
                h = harness.hashlib.sha256(json.dumps([case, res["switch_sig"]], sort_keys=True, default=str).encode()).hexdigest()[:16]
                agg["nontrivial"].add(h)
            if len(agg["samples"]) < 1 and res.get("sample") is not None:
                agg["samples"].append({"idx": idx, "policy": res["policy"], "case": res["sample"],
                                       "schedule_rle_head": res["schedule"][:12], "steps": res["steps"]})
            for v in res["violations"]:
                agg["violations"].append({"idx": idx, "seed": seed, "case": case, "violation": v,
                                          "policy": res["policy"], "schedule": res["schedule"], "digest": res["digest"]})
                break
    faulthandler.cancel_dump_traceback_later()
    return agg


def digests(check, tier, verif_seed, idxs):
    out = {}
    for idx in idxs:
        seed, case, res = one_run(check, tier, verif_seed, idx, with_subcases=False)[0]
        out[str(idx)] = res["digest"] if not res["harness_error"] else "ERR:" + res["harness_error"][-300:]
    return out


def selftest_determinism(prop, tier, verif_seed, n):
    """Each of n run indices: twice in this interpreter, once in a fresh interpreter
    with another PYTHONHASHSEED; all event-log digests must agree."""
    check = load_check(prop)
    idxs = list(range(1_000_000, 1_000_000 + n))
    a = digests(check, tier, verif_seed, idxs)
    b = digests(check, tier, verif_seed, list(reversed(idxs)))
    env = dict(os.environ, PYTHONHASHSEED="12345", DSIM_NO_REEXEC="1", VERIF_SEED=str(verif_seed))
    p = subprocess.run([sys.executable, "-B", os.path.join(VERIF, "bin", "check.py"), prop, "--tier", tier,
                        "--digests", ",".join(map(str, idxs))], env=env, capture_output=True, text=True, timeout=900)
    try:
        c = json.loads(p.stdout.strip().splitlines()[-1])
    except Exception:
        return {"seeds": n, "digests_equal": False, "detail": "fresh interpreter failed: " + (p.stderr or p.stdout)[-800:]}
    bad = [i for i in a if not (a[i] == b[i] == c.get(i)) or a[i].startswith("ERR")]
    return {"seeds": n, "digests_equal": not bad, "detail": "diverged at run indices %s" % bad[:5] if bad else "",
            "modes": ["in-process twice (orders reversed)", "fresh interpreter PYTHONHASHSEED=12345"]}


def write_evidence(check, tier, verif_seed, agg, wall, violations, extra):
    n_nt = len(agg["nontrivial"])
    ev = {
        "property_id": check.prop,
        "tier": tier,
        "seed": verif_seed,
        "level": check.level,
        "coverage": {
            "evaluations": agg["runs"],
            "distinct_nontrivial": n_nt,
            "rule": check.rule,
            "samples": agg["samples"][:3] or [{"note": "no run completed"}],
            "runs_per_hour": int(agg["runs"] / wall * 3600) if wall > 0 else 0,
            "seeds_per_hour": int(agg["runs"] / wall * 3600) if wall > 0 else 0,
            "steps": agg["steps"],
            "simulated_seconds": round(agg["vtime"], 3),
            "context_switches": agg["switches"],
            "interleavings_distinct": len(agg["sigs"]),
            "interleaving_measure": "distinct SHA-256 of the sequence of (from-thread, to-thread, source site) at which the baton changed hands",
            "preemption_sites_hit_max_per_run": agg["sites"],
            "faults_fired": agg["faults"],
            "probes": agg["probes"],
            "probes_stuck_at_zero": sorted(k for k, v in agg["probes"].items() if v == 0 and not k.startswith("defect_")),
            "policies": agg["policies"],
            "case_kinds": agg["kinds"],
            "components_real": check.components_real,
            "components_stub": check.components_stub,
        },
        "assumptions": check.assumptions,
        "wall_s": round(wall, 2),
        "violations": violations,
    }
    ev["coverage"].update(extra)
    os.makedirs(os.path.join(VERIF, "evidence"), exist_ok=True)
    path = os.path.join(VERIF, "evidence", check.prop + ".json")
    tmp = path + ".tmp"
    with open(tmp, "w") as f:
        json.dump(ev, f, indent=1, default=str)
    os.replace(tmp, path)
    return path


def merge(agg, part):
    for k in ("runs", "steps", "vtime", "switches"):
        agg[k] += part[k]
    agg["sites"] = max(agg["sites"], part["sites"])
    for d in ("faults", "probes", "policies", "kinds"):
        for k, v in part[d].items():
            agg[d][k] = agg[d].get(k, 0) + v
    agg["sigs"] |= part["sigs"]
    agg["nontrivial"] |= part["nontrivial"]
    agg["violations"].extend(part["violations"])
    agg["harness_errors"].extend(part["harness_errors"])
    if len(agg["samples"]) < 3:
        agg["samples"].extend(part["samples"])


def verify_replay_fresh(prop, path):
    env = dict(os.environ, PYTHONHASHSEED="777", DSIM_NO_REEXEC="1")
    p = subprocess.run([sys.executable, "-B", os.path.join(VERIF, "bin", "check.py"), prop, "--replay", path],
                       env=env, capture_output=True, text=True, timeout=600)
    return p.returncode == 1 and "REPRODUCED" in p.stdout, (p.stdout + p.stderr)[-600:]


def do_replay(check, path):
    doc = json.load(open(path))
    res = harness.run_replay(check, doc)
    if res["harness_error"]:
        print("HARNESS-ERROR during replay: %s" % res["harness_error"][-800:])
        return 2
    v = harness.same_violation(res, doc["violation"]["sig"])
    if v is None:
        print("NOT-REPRODUCED property=%s replay=%s (violations now: %s)" % (check.prop, path, [x["sig"] for x in res["violations"]]))
        return 0
    print("REPRODUCED property=%s sig=%s seq=%s digest_equal=%s" % (check.prop, v["sig"], v["seq"], res["digest"] == doc.get("digest")))
    print("  " + v["msg"][:1000])
    return 1


def batch(check, tier, verif_seed, budget, procs, max_runs=None):
    t0 = time.time()
    cfg = TIERS[tier]
    budget = budget if budget is not None else cfg["budget"]
    deadline = t0 + budget
    agg = {"runs": 0, "steps": 0, "vtime": 0.0, "switches": 0, "faults": {}, "probes": {}, "policies": {},
           "kinds": {}, "sigs": set(), "nontrivial": set(), "violations": [], "harness_errors": [], "samples": [], "sites": 0}
    known = harness.load_known(check.prop)
    known_sigs = {k["sig"]: k for k in known}
    ctx = multiprocessing.get_context("fork")
    nxt = 0
    chunk = cfg["chunk"]
    unexplained = []
    known_seen = {}
    with cf.ProcessPoolExecutor(max_workers=procs, mp_context=ctx) as ex:
        pending = set()

        def submit():
            nonlocal nxt
            if max_runs is not None and nxt >= max_runs:
                return False
            n = chunk if max_runs is None else min(chunk, max_runs - nxt)
            pending.add(ex.submit(work_chunk, (check.prop, tier, verif_seed, nxt, n, deadline)))
            nxt += n
            return True

        for _ in range(procs * 2):
            submit()
        while pending:
            done, pending_now = cf.wait(pending, timeout=budget + 700, return_when=cf.FIRST_COMPLETED)
            if not done:
                print("HARNESS-ERROR: worker wall timeout")
                for p in pending:
                    p.cancel()
                os._exit(2)
            pending.clear()
            pending.update(pending_now)
            for fut in done:
                try:
                    part = fut.result()
                except Exception as e:  # a worker died (watchdog, crash): harness error, never success
                    print("HARNESS-ERROR: worker failed: %r" % (e,), flush=True)
                    os._exit(2)
                merge(agg, part)
                for v in part["violations"]:
                    sig = v["violation"]["sig"]
                    if sig in known_sigs:
                        known_seen[sig] = known_seen.get(sig, 0) + 1
                    else:
                        unexplained.append(v)
                if time.time() < deadline and not unexplained and not agg["harness_errors"]:
                    submit()
    return agg, unexplained, known_seen, known, time.time() - t0


def main(argv=None):
    ap = argparse.ArgumentParser()
    ap.add_argument("prop")
    ap.add_argument("--tier", default=os.environ.get("VERIF_TIER", "quick"), choices=["quick", "thorough"])
    ap.add_argument("--replay")
    ap.add_argument("--digests")
    ap.add_argument("--budget", type=float)
    ap.add_argument("--procs", type=int, default=int(os.environ.get("DSIM_PROCS", "16")))
    ap.add_argument("--runs", type=int)
    ap.add_argument("--no-selftest", action="store_true")
    ap.add_argument("--no-evidence", action="store_true")
    ap.add_argument("--no-minimise", action="store_true", help="report the first failing case as found (development aid)")
    a = ap.parse_args(argv)
    verif_seed = int(os.environ.get("VERIF_SEED", "0") or 0)
    prop = a.prop.upper()
    check = load_check(prop)

    if a.digests:
        idxs = [int(x) for x in a.digests.split(",")]
        print(json.dumps(digests(check, a.tier, verif_seed, idxs)))
        return 0
    if a.replay:
        return do_replay(check, a.replay)

    print("dsim check property=%s tier=%s VERIF_SEED=%d procs=%d" % (prop, a.tier, verif_seed, a.procs), flush=True)
    rc = 0
    t_start = time.time()
    # known findings first: each stored reproducer must still fail with its signature
    known = harness.load_known(prop)
    known_status = {}
    for k in known:
        path = os.path.join(VERIF, k["replay"])
        doc = json.load(open(path))
        still, how, res = harness.reproduce_known(check, doc, k["sig"])
        known_status[k["id"]] = how
        if still:
            print("KNOWN-FINDING: property=%s %s [id=%s sig=%s replay=%s]" % (prop, k["what"], k["id"], k["sig"], k["replay"]), flush=True)
        else:
            print("note: known finding %s no longer reproduces (stored schedule, lenient schedule and a seeded schedule search all came back clean)" % k["id"], flush=True)

    # directed regression: the minimised reproducer of every repaired defect is run again (same
    # case, stored schedule applied leniently, then a few seeded schedules); a `fixed:` entry
    # suppresses nothing, so if the defect is back it is reported like any other violation
    regressions = []
    fixed_dir = os.path.join(VERIF, "replays", "fixed")
    n_fixed = 0
    if os.path.isdir(fixed_dir):
        for fn in sorted(os.listdir(fixed_dir)):
            if not fn.startswith(prop + "-") or not fn.endswith(".json"):
                continue
            n_fixed += 1
            doc = json.load(open(os.path.join(fixed_dir, fn)))
            sig = doc["violation"]["sig"]
            res = harness.run_replay(check, doc, lenient=True)
            hit = None if res["harness_error"] else harness.same_violation(res, sig)
            seed_used = doc["seed"]
            if hit is None:
                found = harness.find_schedule(check, doc["case"], sig, doc["seed"], 80, time.time() + 15)
                if found is not None:
                    res, hit, seed_used = found
            if hit is not None:
                regressions.append({"idx": -1, "seed": seed_used, "case": doc["case"], "violation": hit,
                                    "policy": res["policy"], "schedule": res["schedule"], "digest": res["digest"]})
                print("note: the repaired defect of %s is back (signature %s)" % (fn, sig), flush=True)

    agg, unexplained, known_seen, known, wall = batch(check, a.tier, verif_seed, a.budget, a.procs, a.runs)
    known_sigs_now = {k["sig"] for k in known}
    unexplained = [r for r in regressions if r["violation"]["sig"] not in known_sigs_now] + unexplained

    if agg["harness_errors"]:
        print("HARNESS-ERROR in %d runs; first: idx=%s\n%s" % (len(agg["harness_errors"]), agg["harness_errors"][0]["idx"], agg["harness_errors"][0]["error"]))
        rc = 2

    reported = []
    seen_sigs = set()
    for v in unexplained:
        sig = v["violation"]["sig"]
        if sig in seen_sigs:
            continue
        if len(seen_sigs) >= 3:
            print("note: further violation signature %s not minimised / reported (3 already are)" % sig)
            continue
        seen_sigs.add(sig)
        res0 = {"schedule": v["schedule"], "policy": v["policy"], "digest": v["digest"]}
        case, res, viol, seed = v["case"], res0, v["violation"], v["seed"]
        try:
            if not a.no_minimise:
                case, res, viol, seed = harness.minimise(check, case, res0, viol, seed, budget_s=60.0 if a.tier == "quick" else 120.0)
        except Exception as e:  # keep the un-minimised replay
            print("note: minimisation failed (%r); keeping the original case" % (e,))
        doc = harness.replay_doc(check, case, seed, v["idx"], verif_seed, res, viol)
        os.makedirs(os.path.join(VERIF, "replays", "found"), exist_ok=True)
        path = os.path.join(VERIF, "replays", "found", "%s-%s-%d-%d.json" % (prop, sig.replace(":", "_").replace("/", "_")[:40], verif_seed, v["idx"]))
        with open(path, "w") as f:
            json.dump(doc, f, indent=1, default=str)
        ok, out = verify_replay_fresh(prop, path)
        if not ok:
            print("HARNESS-ERROR: violation %s at idx %d did not replay in a fresh interpreter:\n%s" % (sig, v["idx"], out))
            rc = 2
            continue
        print("VIOLATION property=%s replay=%s" % (prop, path))
        print("  sig=%s idx=%d seed=%d: %s" % (sig, v["idx"], seed, viol["msg"][:700]))
        reported.append(path)
        if rc == 0:
            rc = 1

    st = {"seeds": 0, "digests_equal": True, "detail": "skipped"}
    if not a.no_selftest:
        st = selftest_determinism(prop, a.tier, verif_seed, TIERS[a.tier]["selftest"])
        if not st["digests_equal"]:
            print("HARNESS-ERROR: determinism self-test failed: %s" % st["detail"])
            rc = 2
    wall_total = time.time() - t_start
    zero = sorted(k for k, v in agg["probes"].items() if v == 0 and not k.startswith("defect_"))  # defect_*: must be 0
    if zero:
        print("warning: probes stuck at zero: %s" % ", ".join(zero))
    if not a.no_evidence:
        extra = {
            "known_findings_seen": {k: known_seen.get(known[i]["sig"], 0) for i, k in enumerate([x["id"] for x in known])},
            "known_findings_reproduced": known_status,
            "determinism_selftest": st,
            "search_wall_s": round(wall, 2),
            "harness_errors": len(agg["harness_errors"]),
            "replays_written": reported,
            "fixed_defect_reproducers_rerun": n_fixed,
            "fixed_defects_back": len(regressions),
        }
        path = write_evidence(check, a.tier, verif_seed, agg, wall_total, len(reported), extra)
    if reported:
        rc = 1  # a verified, replayable violation outranks harness errors met elsewhere in the batch
    print("runs=%d steps=%d sim_seconds=%.1f interleavings=%d nontrivial=%d known_seen=%s wall=%.1fs rc=%d" % (
        agg["runs"], agg["steps"], agg["vtime"], len(agg["sigs"]), len(agg["nontrivial"]), known_seen, wall_total, rc), flush=True)
    return rc
