"""dsim.term — an independent VT-subset terminal model (the oracle for streams).

Shares no code with rich: own tokenizer, own width function (unicodedata).
Anything it does not understand raises TermError (a harness error, never a
silent skip).  LF moves to column 0 of the next row (tty in ONLCR mode).
"""
import re
import unicodedata


class TermError(Exception):
    """Well-formed input the model has no meaning for: a harness limitation (exit 2)."""


class TermMalformed(TermError):
    """Input that is not a sequence of complete escape sequences and text (a stray ESC, half a
    CSI): what was written cannot be interpreted by any terminal the way it was meant."""


def char_width(ch):
    if unicodedata.combining(ch):
        return 0
    if unicodedata.category(ch) in ("Mn", "Me", "Cf"):
        return 0
    return 2 if unicodedata.east_asian_width(ch) in ("W", "F") else 1


def text_width(s):
    return sum(char_width(c) for c in s)


TOKEN = re.compile(
    r"\x1b\[([0-9;?]*)([A-Za-z])"  # CSI
    r"|\x1b\]([^\x1b\x07]*)(?:\x1b\\|\x07)"  # OSC ... ST|BEL
    r"|([\r\n\x07])"  # C0 controls understood
    r"|([^\x1b\r\n\x07]+)"  # printable run
    r"|(\x1b)",  # stray ESC -> error
    re.S,
)

ATTR = {1: "bold", 2: "dim", 3: "italic", 4: "underline", 5: "blink", 6: "blink2", 7: "reverse",
        8: "conceal", 9: "strike", 21: "underline2", 51: "frame", 52: "encircle", 53: "overline"}
OFF = {22: ("bold", "dim"), 23: ("italic",), 24: ("underline", "underline2"), 25: ("blink", "blink2"),
       26: (), 27: ("reverse",), 28: ("conceal",), 29: ("strike",), 54: ("frame", "encircle"), 55: ("overline",)}


_SGR_DEFINED_ELSEWHERE = set(range(10, 21)) | {26, 50, 58, 59} | set(range(60, 66)) | {73, 74, 75}


def tokens(data):
    """Yield ('csi', params, final) | ('osc', body) | ('ctl', ch) | ('text', s)."""
    pos = 0
    for m in TOKEN.finditer(data):
        if m.start() != pos:
            raise TermMalformed("untokenizable input at %d: %r" % (pos, data[pos:pos + 20]))
        pos = m.end()
        params, final, osc, ctl, text, esc = m.groups()
        if final:
            yield ("csi", params, final)
        elif osc is not None:
            yield ("osc", osc)
        elif ctl:
            yield ("ctl", ctl)
        elif text:
            yield ("text", text)
        elif esc:
            raise TermMalformed("stray ESC at %d in %r" % (m.start(), data[max(0, m.start() - 10):m.start() + 20]))
    if pos != len(data):
        raise TermMalformed("untokenizable tail %r" % data[pos:pos + 20])


def visible_text(data):
    """Everything except escape sequences and control codes (newlines kept)."""
    out = []
    for tok in tokens(data):
        if tok[0] == "text":
            out.append(tok[1])
        elif tok[0] == "ctl" and tok[1] == "\n":
            out.append("\n")
    return "".join(out)


class Pen:
    __slots__ = ("attrs", "fg", "bg", "link")

    def __init__(self):
        self.attrs = frozenset()
        self.fg = None
        self.bg = None
        self.link = None

    def key(self):
        if not self.attrs and self.fg is None and self.bg is None and self.link is None:
            return None
        return (tuple(sorted(self.attrs)), self.fg, self.bg, self.link)

    def sgr(self, params):
        try:
            codes = [int(p) if p else 0 for p in params.split(";")] if params != "" else [0]
        except ValueError:
            raise TermError("SGR params %r" % params)
        i = 0
        n = len(codes)
        while i < n:
            c = codes[i]
            if c == 0:
                self.attrs = frozenset()
                self.fg = None
                self.bg = None
            elif c in ATTR:
                self.attrs = self.attrs | {ATTR[c]}
            elif c in OFF:
                self.attrs = self.attrs - set(OFF[c])
            elif 30 <= c <= 37:
                self.fg = ("idx", c - 30)
            elif 90 <= c <= 97:
                self.fg = ("idx", c - 90 + 8)
            elif 40 <= c <= 47:
                self.bg = ("idx", c - 40)
            elif 100 <= c <= 107:
                self.bg = ("idx", c - 100 + 8)
            elif c == 39:
                self.fg = None
            elif c == 49:
                self.bg = None
            elif c in (38, 48):
                if i + 2 < n and codes[i + 1] == 5:
                    v = ("idx", codes[i + 2])
                    i += 2
                elif i + 4 < n and codes[i + 1] == 2:
                    v = ("rgb", codes[i + 2], codes[i + 3], codes[i + 4])
                    i += 4
                else:
                    raise TermError("SGR %r" % params)
                if c == 38:
                    self.fg = v
                else:
                    self.bg = v
            elif c in _SGR_DEFINED_ELSEWHERE:
                raise TermError("SGR code %d in %r (defined by ECMA-48 / xterm, not modelled)" % (c, params))
            else:
                # no terminal gives this number a meaning (e.g. 98, 108: "bright colour 8"):
                # the stream is not interpretable as the styling it was meant to carry
                raise TermMalformed("SGR code %d in %r is not a defined rendition" % (c, params))
            i += 1


class Screen:
    """Unbounded scroll-back + a window of h rows.  Rows are lists of cells
    (char, pen-key); a wide character occupies its cell plus a ("", None) filler."""

    def __init__(self, w, h):
        self.w = w
        self.h = h
        self.rows = [[]]
        self.row = 0
        self.col = 0
        self.top = 0  # first row of the window
        self.pen = Pen()
        self.cursor_visible = True
        self.pending_wrap = False
        self.clamps = 0  # cursor-up that hit the window top
        self.bells = 0
        self.low_water = 0  # lowest row index the cursor reached since the caller last reset it
        self.scrolled_rows = 0

    def _newline(self):
        self.row += 1
        while len(self.rows) <= self.row:
            self.rows.append([])
        if self.row - self.top >= self.h:
            self.scrolled_rows += (self.row - self.h + 1) - self.top
            self.top = self.row - self.h + 1

    def feed(self, data):
        for tok in tokens(data):
            k = tok[0]
            if k == "text":
                for ch in tok[1]:
                    self.put(ch)
            elif k == "ctl":
                c = tok[1]
                if c == "\r":
                    self.col = 0
                    self.pending_wrap = False
                elif c == "\n":
                    self._newline()
                    self.col = 0
                    self.pending_wrap = False
                else:
                    self.bells += 1
            elif k == "csi":
                self.csi(tok[1], tok[2])
            else:
                osc = tok[1]
                if osc.startswith("8;"):
                    _p, _s, url = osc[2:].partition(";")
                    self.pen.link = url or None
                else:
                    raise TermError("OSC %r" % osc)

    def csi(self, params, final):
        if final == "m":
            self.pen.sgr(params)
        elif final == "A":
            try:
                n = int(params or 1)
            except ValueError:
                raise TermError("CSI %r A" % params)
            nr = self.row - n
            if nr < self.top:
                self.clamps += 1
                nr = self.top
            self.row = nr
            if nr < self.low_water:
                self.low_water = nr
            self.pending_wrap = False
        elif final == "K" and params == "2":
            self.rows[self.row] = []
        elif final in "hl" and params == "?25":
            self.cursor_visible = final == "h"
        elif final == "J" and params == "2":
            for r in range(self.top, len(self.rows)):
                self.rows[r] = []
        elif final == "H" and params == "":
            self.row = self.top
            if self.row < self.low_water:
                self.low_water = self.row
            self.col = 0
            self.pending_wrap = False
        else:
            raise TermError("CSI %r %s" % (params, final))

    def put(self, ch):
        w = char_width(ch)
        line = self.rows[self.row]
        if w == 0:
            i = self.col - 1
            while i >= 0 and i < len(line) and line[i][0] == "":
                i -= 1
            if 0 <= i < len(line):
                c, k = line[i]
                line[i] = (c + ch, k)
            return
        if ord(ch) < 32 or ord(ch) == 127:
            raise TermError("control character %r in text" % ch)
        if self.pending_wrap or self.col + w > self.w:
            self._newline()
            self.col = 0
            self.pending_wrap = False
            line = self.rows[self.row]
        while len(line) < self.col:
            line.append((" ", None))
        cell = (ch, self.pen.key())
        if self.col < len(line):
            line[self.col] = cell
        else:
            line.append(cell)
        if w == 2:
            if self.col + 1 < len(line):
                line[self.col + 1] = ("", None)
            else:
                line.append(("", None))
        self.col += w
        if self.col >= self.w:
            self.pending_wrap = True

    # -- observation -------------------------------------------------------
    def line_text(self, r):
        return "".join(c for c, _ in self.rows[r]).rstrip(" ")

    def text(self):
        out = [self.line_text(r) for r in range(len(self.rows))]
        while out and out[-1] == "":
            out.pop()
        return out

    def all_cells(self):
        out = [self.cells(r) for r in range(len(self.rows))]
        while out and not out[-1]:
            out.pop()
        return out

    def cells(self, r):
        """Cells of a row without wide-char fillers and without trailing unstyled blanks."""
        out = [(c, k) for c, k in self.rows[r] if c != ""]
        while out and out[-1] == (" ", None):
            out.pop()
        return out
