"""dsim.display — the screen oracle for live displays (used by C10, C11 and C19).

The oracle owns a terminal model that is fed after every SimFile.write and a tiny
state (committed rows, frame rows on screen).  What the writes of the client's
current operation may do is announced as an ordered list of *stages*:

    ("print", rows)  committed += rows; if the hook is active the frame is redrawn
    ("frame",)       the frame is redrawn (no-op when no hook is active)
    ("final",)       stop()'s last refresh (vertical_overflow forced to "visible")
    ("erase",)       transient display: the frame disappears
    ("freeze",)      non-transient stop: the frame rows become permanent output

A client write may complete any prefix of the remaining stages (including none: a
control-only write); a write by a helper (refresh) thread may only redraw the frame.
After every write

    non-blank rows of the screen == non-blank(committed) ++ non-blank(frame)

for one allowed continuation; the cursor never climbs onto a committed row, never
clamps at the window top, and is hidden exactly while the display is live.  Blank
rows are ignored in the comparison (Progress pads its frame to the tallest height
seen so far; padding is not a remnant of content).  Expected rows come from pristine
renders: rich is trusted for layout, never for cursor control, ordering or routing.
"""
from . import term


def nonblank(rows):
    return [r for r in rows if r]


def crop_frame(rows, overflow, height, ellipsis_row):
    if len(rows) > height:
        if overflow == "crop":
            return rows[:height]
        if overflow == "ellipsis":
            return rows[: height - 1] + [ellipsis_row]
    return rows


class DisplayOracle:
    def __init__(self, sim, width, height, pristine, kind="live", transient=False, overflow="ellipsis"):
        self.sim = sim
        self.W = width
        self.H = height
        self.pristine = pristine
        self.kind = kind
        self.transient = transient
        self.overflow = overflow
        self.scr = term.Screen(width, height)
        self.committed = []  # non-blank rows (cells)
        self.frame = None  # rows on screen below the committed ones, or None
        self.max_frame_h = 0
        self.last_refresh_frame = None  # frame drawn by the most recent refresh (not by a print)
        self.hooked = False  # render hook expected to be active
        self.cursor_hidden_expected = None  # None = not judged (inside start/stop)
        self.relaxed = None  # reason: from now on only "printed tokens in order"
        self.tags = set()  # known-finding predicates that hold for this run
        self.viol = None  # first violation only
        self._begin_seq = {}
        self._hooked_at_begin = {}
        self._hook_changes_at_begin = {}
        self.hook_changes = 0  # number of hook pushes + pops so far
        self._last_write_seq = {}
        self._stages = {}  # tid -> remaining stages of that client's current operation
        self._ops = {}
        self._wtid = None  # thread whose write is being judged
        self.client_tids = set()
        self.frames_fn = lambda why: []  # candidate frames at this instant (list of row lists)
        self._fcache = {}
        self.tokens = []
        self.writes = 0
        self.stop_checks = False  # set once an injected fault fired: content is no longer judged
        self.probe = {"frame_writes": 0, "helper_frame_writes": 0, "helper_frame_changed": 0, "scrolled": 0,
                      "frame_taller_than_screen": 0, "frame_exact_screen_height": 0, "frame_shrunk": 0,
                      "frame_grew": 0, "frame_empty": 0, "relaxed_runs": 0, "writes": 0}
        self._ellipsis = None
        # blank-sensitive view of the printed region: raw rows (blank ones included) of every print
        # consumed so far.  While nothing has been frozen/erased/restarted the printed region is
        # exactly rows [0, n) of the screen, so a lost or extra *empty* line is visible here
        # although the main comparison ignores blank rows.
        self.full_committed = []
        self.full_ok = True
        self.hook_depth = 0
        self.pushed_by = set()  # threads that pushed / popped the hook during their current op
        self.popped_by = set()
        self.sig_hint = None  # set by a client around an operation whose failure has its own signature
        self.tracker = None  # SpanTracker, when the run may meet the overlapping-spans finding
        self._cur_write = None

    def watch_hooks(self, console):
        """Flip `hooked` exactly when the render hook is pushed / popped (instance-level wrappers
        around the public Console.push_render_hook / pop_render_hook)."""
        push, pop = console.push_render_hook, console.pop_render_hook
        oracle = self

        def push_(hook):
            r = push(hook)
            oracle.hook_changes += 1
            oracle.hook_depth += 1
            oracle.hooked = oracle.hook_depth > 0
            oracle.pushed_by.add(oracle._tid())
            return r

        def pop_():
            r = pop()
            oracle.hook_changes += 1
            oracle.hook_depth -= 1
            oracle.hooked = oracle.hook_depth > 0
            oracle.popped_by.add(oracle._tid())
            # a non-transient display stops *now*: its frame rows become permanent output at this
            # instant (pure bookkeeping, no bytes) -- not when the harness later gets to end_op(),
            # by which time another thread may already have started the display again
            st = oracle.stages
            if st and st[0][0] == "freeze":
                oracle._adopt(oracle.committed + nonblank(oracle.frame or []), None, "freeze")
                oracle.full_ok = False
                del st[0]
            return r

        console.push_render_hook = push_
        console.pop_render_hook = pop_

    # -- per-thread operation state -------------------------------------------
    def _tid(self):
        if self._wtid is not None:
            return self._wtid
        me = self.sim.me()
        return me.tid if me is not None else -1

    @property
    def stages(self):
        return self._stages.setdefault(self._tid(), [])

    @stages.setter
    def stages(self, v):
        self._stages[self._tid()] = v

    @property
    def op(self):
        return self._ops.get(self._tid())

    @op.setter
    def op(self, v):
        self._ops[self._tid()] = v

    # -- helpers -------------------------------------------------------------
    def ellipsis_row(self):
        if self._ellipsis is None:
            from rich.text import Text

            rows = self.pristine.rows(lambda c: c.print(Text("...", overflow="crop", justify="center", style="live.ellipsis")))
            self._ellipsis = rows[0] if rows else []
        return self._ellipsis

    def violate(self, oracle, sig, msg):
        if self.viol is None:
            if self.sig_hint and sig in ("screen-mismatch", "missing-output"):
                sig = self.sig_hint
            for tag, tag_sig in (("progress-frame-exceeds-screen",) * 2, ("transient-frame-fills-screen",) * 2,
                                 ("print-without-newline-while-live", "partial-line-overwritten"),
                                 ("print-options-reach-frame", "print-options-reach-frame")):
                if tag in self.tags:
                    sig = tag_sig
                    break
            else:
                if self.tracker is not None and self._cur_write is not None and (
                        self.tracker.overlap(*self._cur_write) or self.tracker.tainted(self._cur_write[1])):
                    sig = "overlapping-critical-spans"
                    self.tracker.overlaps_seen += 1
            self.viol = {"oracle": oracle, "sig": sig, "msg": msg, "seq": self.sim.seq}

    def _norm(self, rows, at):
        """Status: the spinner glyph (first cell of the first frame row) is time dependent."""
        if self.kind == "status" and at is not None and at < len(rows) and rows[at]:
            rows = list(rows)
            rows[at] = [("*", None)] + list(rows[at][1:])
        return rows

    def expected(self, committed, frame):
        fr = nonblank(frame) if frame else []
        return self._norm(committed + fr, len(committed) if fr else None)

    def actual(self, committed_len, has_frame):
        rows = nonblank(self.scr.all_cells())
        return self._norm(rows, committed_len if has_frame else None)

    def _last_committed_row(self):
        n = len(self.committed)
        if n == 0:
            return -1
        k = 0
        for i in range(len(self.scr.rows)):
            if self.scr.cells(i):
                k += 1
                if k == n:
                    return i
        return len(self.scr.rows) - 1

    def frames_now(self, why="frame"):
        """why: 'print' | 'frame' | 'final' | 'helper'"""
        if why not in self._fcache:
            self._fcache[why] = self.frames_fn(why)
        return self._fcache[why]

    # -- stages --------------------------------------------------------------
    def _apply(self, st, committed, frame):
        k = st[0]
        if k == "print":
            c2 = committed + nonblank(st[1])
            if self.hooked:
                outs = [(c2, fr) for fr in self.frames_now("print")]
                if not self._hooked_at_begin.get(self._tid(), True) and not frame:
                    # the print began before the display was started: it may never have met the hook
                    outs.append((c2, frame))
                return outs
            return [(c2, frame)]
        if k == "frame":
            if not self.hooked:
                return [(committed, frame)]
            return [(committed, fr) for fr in self.frames_now("frame")]
        if k == "final":
            return [(committed, fr) for fr in self.frames_now("final")]
        if k == "erase":
            return [(committed, None)]
        if k == "freeze":
            return [(committed + nonblank(frame or []), None)]
        raise ValueError(k)

    def _outcomes(self, is_client, upto=None):
        """[(committed, frame, note, stages_consumed)] in order of preference."""
        outs = [(self.committed, self.frame, "stay", 0)]
        if is_client:
            states = [(self.committed, self.frame)]
            for n, st in enumerate(self.stages, 1):
                nxt = []
                for c, f in states:
                    for o in self._apply(st, c, f):
                        if o not in nxt:
                            nxt.append(o)
                states = nxt[:32]
                outs.extend((c, f, st[0], n) for c, f in states)
                if upto is not None and n >= upto:
                    break
        elif self.hooked:
            outs.extend((self.committed, fr, "helper-frame", 0) for fr in self.frames_now("helper"))
        return outs

    def begin_op(self, op, stages, optional_frame=False):
        self.op = op
        self.stages = list(stages)
        # start() of a Live / Status: the statement does not say whether starting draws a first
        # frame at once or leaves it to the first refresh -- both are accepted
        self.optional_frame = optional_frame
        self._fcache = {}
        tid = self._tid()
        self._begin_seq[tid] = self.sim.seq
        self._hooked_at_begin[tid] = self.hooked
        self._hook_changes_at_begin[tid] = self.hook_changes
        self.pushed_by.discard(tid)
        self.popped_by.discard(tid)
        if self.tracker is not None:
            kinds = [st[0] for st in self.stages]
            if "print" in kinds:
                k = "print"
            elif "final" in kinds or "erase" in kinds or "freeze" in kinds or (isinstance(op, str) and op.startswith("stop")):
                k = "stop"
            elif isinstance(op, str) and op.startswith("start"):
                k = "start"
            elif "frame" in kinds:
                k = "refresh"
            else:
                k = "other"
            self.tracker.set_kind(tid, k)

    def span_begin(self):
        """Sequence number at which the operation (or, for a helper thread, the refresh cycle)
        whose write is being judged began: a frame it draws may show any renderable that was
        current at some moment since then (render and write are separate steps)."""
        tid = self._tid()
        if tid in self.client_tids:
            return self._begin_seq.get(tid, 0)
        return self._last_write_seq.get(tid, 0)

    def end_op(self):
        """Every stage of the op must have happened by now."""
        self._fcache = {}
        if self.stages and (getattr(self, "optional_frame", False) or not self._hooked_at_begin.get(self._tid(), True) or not self.hooked
                            or self._hook_changes_at_begin.get(self._tid()) != self.hook_changes):
            # a refresh that ran while no hook was installed -- at the beginning, at the end, or at
            # some moment in between (the hook was popped / pushed during the operation) --
            # legitimately writes nothing
            self.stages = [st for st in self.stages if st[0] != "frame"]
        if self.viol is None and not self.relaxed and not self.stop_checks and self.stages:
            n = len(self.stages)
            finals = [o for o in self._outcomes(True) if o[3] == n]
            hit = None
            for c, f, note, _ in finals:
                if self.expected(c, f) == self.actual(len(c), bool(f and nonblank(f))):
                    hit = (c, f)
                    break
            if hit is None:
                c, f = (finals[0][0], finals[0][1]) if finals else (self.committed, self.frame)
                self._cur_write = (self.sim.seq + 1, self._tid())  # classify against the spans as of now
                self.violate("screen", "missing-output", "operation %r ended without its output on the screen: expected %s, screen %s" % (
                    self.op, _show(self.expected(c, f)), _show(self.actual(len(c), True))))
            else:
                self._adopt(hit[0], hit[1], "end")
                self.full_ok = False  # stages completed without a matching write: row bookkeeping is off
        self._cur_write = None
        self.stages = []
        self.op = None

    def _adopt(self, c, f, note):
        if note in ("frame", "helper-frame", "print", "final") and f is not None and (self.hooked or note == "final"):
            self.probe["frame_writes"] += 1
            oldh = len(nonblank(self.frame)) if self.frame else 0
            newh = len(nonblank(f))
            if newh < oldh:
                self.probe["frame_shrunk"] += 1
            elif newh > oldh:
                self.probe["frame_grew"] += 1
            if newh == 0:
                self.probe["frame_empty"] += 1
            if note == "helper-frame":
                self.probe["helper_frame_writes"] += 1
                if f != self.frame:
                    self.probe["helper_frame_changed"] += 1
            fh = len(f)
            self.max_frame_h = max(self.max_frame_h, fh)
            if fh > self.H:
                self.probe["frame_taller_than_screen"] += 1
                if self.kind != "progress" and self.overflow == "visible" and note != "final":
                    self.relaxed = "vertical_overflow='visible' and a frame taller than the screen (documented: cannot be cleared)"
                    self.probe["relaxed_runs"] += 1
            elif fh == self.H:
                self.probe["frame_exact_screen_height"] += 1
            if self.kind == "progress" and self.max_frame_h > self.H:
                self.tags.add("progress-frame-exceeds-screen")
            if note == "final" and self.transient and max(fh, self.max_frame_h if self.kind == "progress" else 0) >= self.H:
                self.tags.add("transient-frame-fills-screen")
        if note in ("frame", "helper-frame", "final"):
            self.last_refresh_frame = f
        self.committed, self.frame = c, f

    # -- the write hook ------------------------------------------------------
    def on_write(self, seq, tid, text):
        self._cur_write = (seq, tid)
        try:
            content = any(t[0] == "text" or (t[0] == "csi" and t[2] in "KJ") for t in term.tokens(text))
        except term.TermError:
            content = True
        try:
            self._on_write(seq, tid, text)
        finally:
            self._cur_write = None
            if self.tracker is not None:
                tr = self.tracker
                if tr.overlap(seq, tid):
                    tr.taint = seq
                elif tr.taint is not None and content and (tr.open.get(tid) is None or tr.open[tid] > tr.taint):
                    tr.taint = None  # the first content write after the tainting one: shape / cursor re-established
                tr.write_done(seq, tid)

    def _on_write(self, seq, tid, text):
        self._wtid = tid
        try:
            self._on_write2(seq, tid, text)
        finally:
            self._wtid = None
            self._last_write_seq[tid] = seq

    def _on_write2(self, seq, tid, text):
        self.writes += 1
        self.probe["writes"] += 1
        self._fcache = {}
        last_row = self._last_committed_row()
        scr = self.scr
        scr.low_water = scr.row
        top_before = scr.top
        clamps_before = scr.clamps
        try:
            scr.feed(text)  # TermError (unsupported but well-formed) propagates: harness error
        except term.TermMalformed as e:
            # half an escape sequence / a stray ESC reached the terminal: the emitted characters
            # do not mean a screen at all
            self.violate("screen", "uninterpretable-output", "write #%d cannot be interpreted by a terminal: %s" % (self.writes, e))
            self.stop_checks = True
            return
        if scr.top != top_before:
            self.probe["scrolled"] += 1
        if self.viol is not None or self.stop_checks:
            return
        if self.relaxed:
            self._check_tokens()
            return
        is_client = tid in self.client_tids
        outs = self._outcomes(is_client)
        # a write that carries text or an erase is a content write: it is matched against the
        # next stages first; a control-only write (cursor visibility, newline) must leave the
        # rows unchanged.  (Matching "nothing changed" first would leave a refresh that redrew
        # an identical frame pending until end_op, when the candidates may have moved on.)
        content = any(t[0] == "text" or (t[0] == "csi" and t[2] in "KJ") for t in term.tokens(text))
        if content:
            outs = outs[1:] + outs[:1]
        else:
            outs = outs[:1]
        matched = None
        for c, f, note, adv in outs:
            if self.expected(c, f) == self.actual(len(c), bool(f and nonblank(f))):
                matched = (c, f, note, adv)
                break
        if matched is None:
            self._tag_from_candidates(outs)
            if self.relaxed:
                self._check_tokens()
                return
            act = self.actual(len(self.committed), True)
            note = ""
            for c, f, _, _ in outs:
                e = self.expected(c, f)
                if _show(e, 10 ** 6) == _show(act, 10 ** 6):
                    i = next((i for i, (x, y) in enumerate(zip(e, act)) if x != y), None)
                    if i is not None:
                        j = next((j for j, (x, y) in enumerate(zip(e[i], act[i])) if x != y), min(len(e[i]), len(act[i])))
                        note = " (same characters; styles differ in row %d at cell %d: screen %r, expected %r)" % (
                            i, j, act[i][j:j + 1], e[i][j:j + 1])
                    break
            self.violate("screen", "screen-mismatch", "after write #%d (%s thread, op %r) the screen is %s; allowed: %s%s" % (
                self.writes, "client" if is_client else "helper", self.op, _show(act),
                " | ".join(_show(self.expected(c, f)) for c, f, _, _ in outs[:4]), note))
            return
        c, f, note, adv = matched
        self._adopt(c, f, note)
        if adv:
            for st in self.stages[:adv]:
                if st[0] == "print":
                    self.full_committed.extend(st[1])
                elif st[0] in ("freeze", "erase", "final"):
                    self.full_ok = False
            del self.stages[:adv]
        if self.full_ok and self.full_committed and not self.relaxed:
            n = len(self.full_committed)
            got = [scr.cells(r) if r < len(scr.rows) else [] for r in range(n)]
            if got != self.full_committed:
                i = next(i for i in range(n) if got[i] != self.full_committed[i])
                self.violate("screen", "printed-rows-mismatch", "row %d of the printed region is %r, expected %r (empty lines count): printed region %s, expected %s" % (
                    i, "".join(ch for ch, _ in got[i]), "".join(ch for ch, _ in self.full_committed[i]),
                    _show([r or [("", None)] for r in got[max(0, i - 2):i + 3]]), _show([r or [("", None)] for r in self.full_committed[max(0, i - 2):i + 3]])))
        if self.relaxed:
            return
        if scr.clamps != clamps_before:
            self.violate("cursor", "cursor-clamped", "write #%d moved the cursor up past the top of the window (op %r)" % (self.writes, self.op))
        elif last_row >= 0 and scr.low_water <= last_row:
            self.violate("cursor", "cursor-above-live-region", "write #%d moved the cursor to row %d, at or above the last printed line (row %d) (op %r)" % (
                self.writes, scr.low_water, last_row, self.op))
        if self.cursor_hidden_expected is not None and scr.cursor_visible == self.cursor_hidden_expected:
            self.violate("cursor", "cursor-visibility", "cursor is %s after write #%d while the display is %s (op %r)" % (
                "visible" if scr.cursor_visible else "hidden", self.writes, "live" if self.cursor_hidden_expected else "not live", self.op))

    def _tag_from_candidates(self, outs):
        """A failing write may be the very one that draws the offending frame."""
        for c, f, note, adv in outs:
            if f is None:
                continue
            h = max(len(f), self.max_frame_h if self.kind == "progress" else 0)
            if self.kind == "progress" and h > self.H:
                self.tags.add("progress-frame-exceeds-screen")
            if note == "final" and self.transient and h >= self.H:
                self.tags.add("transient-frame-fills-screen")
            if self.kind != "progress" and self.overflow == "visible" and len(f) > self.H and note != "final":
                self.relaxed = "vertical_overflow='visible' and a frame taller than the screen (documented)"

    def _check_tokens(self):
        # docs/source/live.rst: with vertical_overflow="visible" "the display cannot be properly
        # cleared": once a frame taller than the screen was drawn, remnants AND overwritten printed
        # lines are the documented behaviour, so no statement about content is checked any more
        # (cursor / stdio / hook post-conditions still are).
        return
        text = "\n".join(self.scr.text())
        pos = 0
        for tok in self.tokens:
            i = text.find(tok, pos)
            if i < 0:
                self.violate("screen", "printed-line-lost", "printed token %r missing or out of order on the screen (%s)" % (tok, self.relaxed))
                return
            pos = i + len(tok)


def _show(rows, limit=12):
    txt = ["".join(c for c, _ in r).rstrip() for r in rows]
    if len(txt) > limit:
        txt = txt[:4] + ["...(%d rows)..." % (len(txt) - 8)] + txt[-4:]
    return repr(txt)


class SpanTracker:
    """Critical spans for the known finding 'overlapping critical spans' (DESIGN 5.2, 7 #6).

    A thread's span opens when it first evaluates the display hook (process_renderables:
    the cursor controls are computed from the remembered frame shape) or enters stop(),
    and closes at its next write (at stop()'s exit for stop).  A failing write W of thread
    A is explained by the finding iff A's span contains a write, a hook push/pop or a
    display start/stop event of a different thread, or W lies inside the open span of
    another thread.  Computed from logged sequence numbers; nothing is judged by eye.
    """

    def __init__(self, sim, console):
        self.sim = sim
        self.open = {}  # tid -> seq at which its span opened
        self.entry = {}  # tid -> seq at which its current writing operation was entered
        self.taint = None  # seq of the last write whose critical span overlapped (see tainted())
        self.kind = {}  # tid -> kind of its current operation: print | refresh | stop | start | other
        # (threads the harness does not drive -- rich's refresh thread -- only ever refresh)
        self.in_stop = set()
        self.events = []  # (seq, tid, kind)
        self.installed = False
        self.overlaps_seen = 0
        try:
            orig_push = console.push_render_hook
            orig_pop = console.pop_render_hook
            tracker = self

            def push(hook):
                tracker.note("hook-push")
                try:
                    orig_pr = hook.process_renderables

                    def pr(renderables):
                        tracker.hook_eval()
                        return orig_pr(renderables)

                    hook.process_renderables = pr
                except AttributeError:
                    tracker.installed = False
                return orig_push(hook)

            def pop():
                tracker.note("hook-pop")
                return orig_pop()

            console.push_render_hook = push
            console.pop_render_hook = pop
            self.installed = True
        except AttributeError:
            self.installed = False

    def _tid(self):
        me = self.sim.me()
        return me.tid if me is not None else -1

    def note(self, kind):
        tid = self._tid()
        self.events.append((self.sim.event(kind), tid, kind, self.kind.get(tid, "refresh")))

    def set_kind(self, tid, kind):
        self.kind[tid] = kind

    def hook_eval(self):
        tid = self._tid()
        if tid not in self.open:
            self.open[tid] = self.sim.event("span-open")
        cb = getattr(self, "on_hook_eval", None)
        if cb is not None:
            with self.sim.atomic():
                cb(tid)

    def stop_begin(self):
        tid = self._tid()
        self.in_stop.add(tid)
        seq = self.sim.event("stop-enter")
        self.kind[tid] = "stop"
        self.events.append((seq, tid, "stop-enter", "stop"))
        self.open.setdefault(tid, seq)

    def stop_end(self):
        tid = self._tid()
        self.in_stop.discard(tid)
        self.events.append((self.sim.event("stop-exit"), tid, "stop-exit", "stop"))
        self.open.pop(tid, None)

    def start_event(self):
        self.note("display-start")

    def print_begin(self):
        """Entry of a writing operation: a print that never meets the hook (it started before
        push_render_hook) has no hook evaluation; its span starts here instead."""
        tid = self._tid()
        self.entry[tid] = self.sim.event("op-enter")

    def overlap(self, seq, tid):
        """Is the write (seq, tid) explained by overlapping critical spans?  Call before write_done.

        Only print/log can be on the wrong side of this finding: Console.print evaluates the hook,
        renders and writes without holding the display lock from the first to the last of these
        steps.  Every other writing operation -- refresh(), update(refresh=True), add_task, reset,
        the refresh thread, start(), and stop() up to the point where it pops the hook -- holds the
        display lock from hook evaluation to write, so two of them can never interleave on the
        unchanged tree (a refresh after the hook is popped writes nothing).  An overlap therefore
        explains a violation only if at least one of the two overlapping operations is a print/log.
        """
        if not self.installed:
            return False
        mine = self.kind.get(tid, "refresh")
        cands = [x for x in (self.open.get(tid), self.entry.get(tid)) if x is not None]
        s = min(cands) if cands else None
        if s is not None:
            for eseq, etid, kind, okind in self.events:
                if etid != tid and s < eseq < seq and (mine == "print" or okind == "print"):
                    return True
        for otid in self.open:
            if otid != tid and (mine == "print" or self.kind.get(otid, "refresh") == "print"):
                return True
        return False

    def tainted(self, tid):
        """Latent face of the same finding: a print whose span overlapped another thread's
        start/stop/refresh may leave the *remembered frame shape* inconsistent with the screen
        without any visible damage at its own write (e.g. a buffered block that was rendered
        during one run of the display and written after the next run had started).  The
        inconsistency shows at the next hook evaluation, so the first hooked write whose hook
        was evaluated after the tainting write is explained too; after that content write the
        shape / cursor position has been re-established and the taint is gone."""
        if self.taint is None:
            return False
        s = self.open.get(tid)
        # (a write that met no hook at all -- the display has stopped meanwhile -- starts wherever
        # the tainting write left the cursor, e.g. at the end of a frame row: explained as well)
        return s is None or s > self.taint

    def write_done(self, seq, tid):
        self.events.append((seq, tid, "write", self.kind.get(tid, "refresh")))
        if tid not in self.in_stop:
            self.open.pop(tid, None)
            self.entry.pop(tid, None)
