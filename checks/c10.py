"""C10 — live / progress / status displays leave a correct screen after any history,
and restore cursor, stdio and hook when the body or the renderable raises.

Real code: rich.live, rich.live_render, rich.progress, rich.status, rich.console,
rich.file_proxy (+ everything they render with).  Stubs: dsim locks/events/threads,
virtual clock, SimFile terminal.  Oracle: dsim.display.DisplayOracle after every write;
fault enumeration over every body position and every render-call index.
"""
import copy
import json
import sys

from dsim import sched, seams
from dsim.display import DisplayOracle, SpanTracker, crop_frame, nonblank
from dsim.programs import FAULTS, FaultCounter, Faulty, InjectedFault, InjectedInterrupt, Pristine, build, unwrap
from dsim.seams import SimClock, SimFile

PROP = "C10"

WORDS = ["alpha", "beta", "gamma", "delta", "x", "lorem ipsum", "漢字", "かな", "ｆｕｌｌ", "😀", "é", "a b  c", "[x]", "<&>"]
STYLES = [None, None, "bold", "red", "bold red on blue", "italic", "underline", "reverse"]


def _text_lines(rng, prefix, n, width):
    out = []
    for j in range(n):
        w = rng.choice(WORDS)
        out.append("%s%s %s" % (prefix, "abcdefghij"[j % 10] if n > 1 else "", w))
    return out


def gen_frame(rng, fid, H, W):
    r = rng.random()
    n = rng.choice([0, 1, 1, 2, 2, 3, 4, max(1, H - 1), H, H, H + 1, H + 3])
    if n == 0:
        return {"t": "empty"} if rng.random() < 0.5 else {"t": "text", "lines": [""]}
    lines = ["F%d.%d %s" % (fid, j, rng.choice(WORDS)) for j in range(n)]
    if r < 0.7:
        return {"t": "text", "lines": lines, "style": rng.choice(STYLES)}
    if r < 0.85 and n >= 3:
        return {"t": "panel", "body": {"t": "text", "lines": lines[: n - 2]}, "title": None}
    return {"t": "table", "head": None, "rows": [[ln, "c%d" % j] for j, ln in enumerate(lines)]}


class C10:
    prop = PROP
    level = "fault_enumeration"
    line_modules = seams.TARGET_MODULES
    policy_weights = (0.6, 0.2, 0.2)

    def opcode_modules(self, case):
        return ("rich.live", "rich.progress") if case["cfg"].get("opcode") else ()

    def policy(self, case, rng):
        from dsim import harness

        if not case["cfg"]["auto_refresh"]:
            return {"kind": "none"}  # one thread: nothing to schedule
        return harness.draw_policy(rng, self.policy_weights)

    # -- generation ----------------------------------------------------------
    def gen(self, rng, tier, idx):
        thorough = tier == "thorough"
        r = rng.random()
        kind = "live" if r < 0.5 else ("progress" if r < 0.85 else "status")
        W = rng.choice([12, 16, 20, 30, 40, 60])
        H = rng.choice([3, 4, 5, 6, 8, 12])
        cfg = {
            "width": W, "height": H, "transient": rng.random() < 0.4,
            "overflow": rng.choice(["crop", "ellipsis", "ellipsis", "visible"]),
            "auto_refresh": rng.random() < 0.34 or kind == "status",
            "rps": rng.choice([2, 10, 50]),
            "redirect": rng.random() < 0.5,
            "color": rng.choice([None, "truecolor"]),
            "opcode": rng.random() < 0.3,
            "clock": rng.choice(["frozen", "jitter"]),
            "tall_ok": rng.random() < 0.12,  # allow Progress frames taller than the screen (known finding)
        }
        if kind == "status":
            cfg["transient"] = True
            cfg["redirect"] = True  # Status builds its Live with the default redirection
        if kind == "progress" and not cfg["auto_refresh"] and rng.random() < 0.35:
            # the stock columns (description, bar, percentage, time remaining): expected frames come
            # from a mirror Progress that is never started and receives the same operations at the
            # same virtual instants (frozen clock, no refresh thread: no timer can fire in between)
            cfg["columns"] = "default"
            cfg["clock"] = "frozen"
        nops = rng.randint(1, 40 if thorough else 12)
        ops = []
        st = {"n": 0, "f": 0, "tasks": 0, "alive": 0}
        pre = []
        if kind == "progress" and rng.random() < 0.4:
            # tasks added before the block is entered (add_task on a Progress that is not started)
            for _ in range(rng.randint(1, 3)):
                st["tasks"] += 1
                st["alive"] += 1
                pre.append(["add", "T%d pre" % st["tasks"], rng.choice([10, 100]), rng.random() < 0.9])
        for _ in range(nops):
            ops.append(self._gen_op(rng, kind, cfg, st))
        if kind == "progress" and rng.random() < 0.3 and st["alive"] + 3 <= H - 1:
            # the frame gets narrower *and* taller: the widest row goes away (hidden, removed or
            # renamed) and then more rows appear than the display ever had
            st["tasks"] += 1
            wide_i = st["tasks"] - 1
            ops.append(["add", "T%d a much longer job" % st["tasks"], 100, True])
            ops.append(rng.choice([["upd", wide_i, {"visible": False}], ["remove", wide_i], ["upd", wide_i, {"description": "T%d s" % st["tasks"]}]]))
            for _ in range(2):
                st["tasks"] += 1
                ops.append(["add", "T%d x" % st["tasks"], 3, True])
            ops.append(rng.choice([["refresh"], ["print", self._gen_print(rng, st, cfg)]]))
        if kind in ("live", "status") and rng.random() < 0.25:
            # operations on a display that has not been started yet (refresh / update / print /
            # status text before the block is entered)
            for _ in range(rng.randint(1, 3)):
                o2 = self._gen_op(rng, kind, cfg, st)
                if o2[0] in ("print", "printm", "block", "line", "log", "rule", "update", "refresh", "status"):
                    pre.append(o2)
        if rng.random() < 0.15 and ops:
            # a restart somewhere in the history (stop immediately followed by start)
            j = rng.randrange(len(ops) + 1)
            ops[j:j] = [["stop"], ["start"]]
        init = gen_frame(rng, 0, H, W) if kind == "live" else None
        if kind == "status":
            init = {"t": "text", "lines": ["S0 " + rng.choice(WORDS)]}
        return {"kind": kind, "cfg": cfg, "ops": ops, "init": init, "fault": None, "pre": pre}

    def _gen_print(self, rng, st, cfg):
        st["n"] += 1
        n = rng.choice([1, 1, 1, 2, 3])
        if rng.random() < 0.05:
            # a line wider than the console printed with overflow="ignore", no_wrap: print's own
            # crop cuts it at the width (with and without a live display alike)
            W = cfg["width"]
            word = "".join(rng.choice("0123456789" if rng.random() < 0.6 else "进度漢字") for _ in range(W + rng.randint(1, 12)))
            return {"t": "text", "lines": ["P%d %s" % (st["n"], word)], "style": rng.choice(STYLES), "ignore": True}
        return {"t": "text", "lines": _text_lines(rng, "P%d" % st["n"], n, cfg["width"]), "style": rng.choice(STYLES)}

    def _gen_op(self, rng, kind, cfg, st):
        r = rng.random()
        H, W = cfg["height"], cfg["width"]
        if r < 0.22:
            q = rng.random()
            if q < 0.08:
                # several renderables in one print call
                return ["printm", [self._gen_print(rng, st, cfg) for _ in range(rng.randint(2, 3))]]
            if q < 0.16:
                # a buffered `with console:` block holding several prints: one write for all of them,
                # each print hooked on its own
                return ["block", [self._gen_print(rng, st, cfg) for _ in range(rng.randint(1, 3))]]
            # (console.line() is not generated: it appends its newlines to the buffer directly, past the
            # render hooks, and is not among the operations C10 speaks of -- DESIGN 12.2, false alarm t)
            if rng.random() < 0.02:
                # print(..., end=""): the line stays open (known finding C10-F17 while a display is live)
                return ["print", self._gen_print(rng, st, cfg), "noeol"]
            return ["print", self._gen_print(rng, st, cfg)]
        if r < 0.27:
            st["n"] += 1
            return ["log", "P%d %s" % (st["n"], rng.choice(WORDS))]
        if r < 0.31:
            st["n"] += 1
            return ["rule", "P%d" % st["n"]]
        if r < 0.36:
            st["n"] += 1
            ch = "e" if rng.random() < 0.3 else "o"  # stderr is redirected like stdout
            if rng.random() < 0.35:
                return ["stdoutp", "P%d part " % st["n"], ch]  # no newline: stays pending in the proxy
            # (a quarter of these writes end in one or two blank lines: "text\n\n" in one write())
            return ["stdout", "P%d out %s" % (st["n"], rng.choice(["plain", "two words", "x"])), ch, rng.choice([0, 0, 0, 1, 2])]
        if r < 0.44:
            return ["sleep", rng.choice([0.01, 0.05, 0.3, 1.1])]
        if r < 0.47:
            return ["stop"]
        if r < 0.50:
            return ["start"]
        if kind == "live":
            if r < 0.85:
                st["f"] += 1
                return ["update", gen_frame(rng, st["f"], H, W), rng.random() < 0.5]
            return ["refresh"]
        if kind == "status":
            if r < 0.85:
                st["f"] += 1
                n = rng.choice([1, 1, 1, 2, 3])
                opts = {}
                if rng.random() < 0.3:
                    # (spinners whose frames are all one cell wide: the glyph is compared as a wildcard cell)
                    opts["spinner"] = rng.choice(["line", "dots2", "dots"])
                if rng.random() < 0.2:
                    opts["spinner_style"] = rng.choice(["red", "bold green", "status.spinner"])
                if rng.random() < 0.2:
                    opts["speed"] = rng.choice([0.5, 2.0, 10.0])
                if opts and rng.random() < 0.4:
                    return ["status", None, opts]  # status text unchanged
                return ["status", {"t": "text", "lines": ["S%d.%d %s" % (st["f"], j, rng.choice(WORDS)) for j in range(n)]}, opts]
            return ["sleep", rng.choice([0.05, 0.2])]
        # progress
        limit = H + 3 if cfg["tall_ok"] else H - 1
        if r < 0.68 and st["alive"] < limit or st["tasks"] == 0:
            st["tasks"] += 1
            st["alive"] += 1
            return ["add", "T%d %s" % (st["tasks"], rng.choice(["dl", "proc", "漢字"])), rng.choice([10, 100, 3]), rng.random() < 0.85]
        i = rng.randrange(st["tasks"])
        if r < 0.78:
            return ["advance", i, rng.choice([1, 2, 5, 0.5])]
        if r < 0.88:
            a = {}
            if rng.random() < 0.5:
                a["completed"] = rng.choice([0, 1, 7, 100])
            if rng.random() < 0.5:
                a["visible"] = rng.random() < 0.5
            if rng.random() < 0.3:
                a["description"] = "T%d renamed" % (i + 1)
            if rng.random() < 0.4:
                a["refresh"] = True
            return ["upd", i, a]
        if r < 0.93:
            st["alive"] = max(0, st["alive"] - 1)
            return ["remove", i]
        if r < 0.96:
            return ["reset", i]
        return ["refresh"]

    # -- fault enumeration ---------------------------------------------------
    def expand(self, case, res, rng, tier):
        """All crash points of this history: every position of the block body, and every
        render-call index (raise once / raise from then on)."""
        if case["fault"] is not None or res["harness_error"] or res["violations"]:
            return []
        n = len(case["ops"])
        calls = res["probes"].get("render_calls", 0)
        # each crash point raises either an Exception subclass or a bare BaseException subclass
        # (what KeyboardInterrupt / SystemExit are): cleanup must not depend on `except Exception`
        pts = [{"type": "body", "pos": p, "base": rng.random() < 0.35} for p in range(n + 1)]
        for k in range(calls):
            pts.append({"type": "render", "k": k, "persistent": False, "base": rng.random() < 0.35})
            pts.append({"type": "render", "k": k, "persistent": True, "base": rng.random() < 0.35})
        cap = 10 if tier == "quick" else 60
        if len(pts) > cap:
            pts = rng.sample(pts, cap)
        out = []
        for f in pts:
            c = copy.deepcopy(case)
            c["fault"] = f
            if case["kind"] == "live" and not case["cfg"]["auto_refresh"] and not f.get("persistent"):
                # life after the fault: the same Live object is started again (on a cleared
                # terminal) and used normally -- a failed block must not leave the display object
                # in a state that breaks its next run
                H, W = case["cfg"]["height"], case["cfg"]["width"]
                al = []
                for j in range(rng.randint(2, 5)):
                    r = rng.random()
                    if r < 0.45:
                        al.append(["update", gen_frame(rng, 900 + j, H, W), rng.random() < 0.7])
                    elif r < 0.75:
                        al.append(["refresh"])
                    else:
                        al.append(["print", {"t": "text", "lines": ["P%d after" % (900 + j)], "style": None}])
                c["afterlife"] = al
            out.append(c)
        return out

    # -- setup ---------------------------------------------------------------
    def setup(self, sim, case, env):
        return Program(sim, case, env)

    def finish(self, sim, case, prog):
        return prog.finish()

    # -- shrinking -----------------------------------------------------------
    def shrink(self, case):
        ops = case["ops"]
        for j in range(len(ops) - 1, -1, -1):
            c = copy.deepcopy(case)
            del c["ops"][j]
            if c["fault"] and c["fault"]["type"] == "body" and c["fault"]["pos"] > j:
                c["fault"]["pos"] -= 1
            yield c
        for key, val in (("auto_refresh", False), ("redirect", False), ("color", None), ("opcode", False), ("clock", "frozen")):
            if case["cfg"].get(key) != val and not (key == "auto_refresh" and case["kind"] == "status"):
                c = copy.deepcopy(case)
                c["cfg"][key] = val
                yield c
        for j, op in enumerate(ops):
            for d in ([op[1]] if op[0] in ("print", "update", "status") and isinstance(op[1], dict) else []):
                if d.get("t") == "text" and len(d.get("lines", [])) > 1:
                    c = copy.deepcopy(case)
                    c["ops"][j][1]["lines"] = d["lines"][:-1]
                    yield c
                if d.get("style"):
                    c = copy.deepcopy(case)
                    c["ops"][j][1]["style"] = None
                    yield c


class Program:
    """Builds the console / display / oracle for one run and provides the client body."""

    def __init__(self, sim, case, env, spawn=True):
        from rich.console import Console

        self.sim = sim
        self.case = case
        cfg = case["cfg"]
        self.cfg = cfg
        self.kind = case["kind"]
        W, H = cfg["width"], cfg["height"]
        self.clock = SimClock(sim, env.clock_rng, mode=cfg.get("clock", "frozen"), jitter=0.003)
        self.file = SimFile(sim, tty=True)
        self.console = Console(file=self.file, width=W, height=H, force_terminal=True, color_system=cfg["color"],
                               _environ={}, get_time=self.clock.time, get_datetime=self.clock.datetime,
                               log_time=False, log_path=False)
        self.pristine = Pristine(W, H, cfg["color"], clock=self.clock)
        self.oracle = DisplayOracle(sim, W, H, self.pristine, kind=self.kind, transient=cfg["transient"], overflow=cfg["overflow"])
        self.file.on_write = self.oracle.on_write
        self.oracle.frames_fn = self.frames
        # with the refresh thread running, hook evaluation (cursor controls from the remembered
        # shape), render and write are not atomic against the timer: known finding F6, for
        # Progress too (its process_renderables takes no lock).  Violations are suppressed only
        # when the exact overlapping-spans predicate holds at the failing write.
        if cfg["auto_refresh"]:
            self.oracle.tracker = SpanTracker(sim, self.console)
        fault = case.get("fault")
        self.fault = fault
        k = fault["k"] if fault and fault["type"] == "render" else None
        self.counter = FaultCounter(k, bool(fault and fault.get("persistent")), "C10-fault", base=bool(fault and fault.get("base")))
        self.counter.on_fire = lambda: setattr(self.oracle, "stop_checks", True)
        self.started = False
        self.viol = []
        self.caught = None
        self.other_exc = None
        self.frame_cache = {}
        self.tasks = []  # progress model: dicts
        self.model_before = None
        self.in_client_op = False
        self.pending_out = {"o": "", "e": ""}  # partial line written to the redirected stdout / stderr, not yet printed
        self.frame_at_op_begin = None
        self.probes = {"restart": 0, "render_calls": 0, "body_fault_fired": 0, "render_fault_fired": 0, "base_exception_faults": 0,
                       "fault_in_helper_thread": 0, "print_while_live": 0, "progress_stock_columns": 0, "stdout_partial_writes": 0, "partial_line_pending_at_stop": 0, "stdout_lines": 0, "post_probe_ok": 0}
        if cfg.get("columns") == "default":
            self.probes["progress_stock_columns"] = 1
        self.stdout_sentinel = sys.stdout
        self.stderr_sentinel = sys.stderr
        self._build_display()
        if spawn:
            t = sim.spawn(self.body, "c0")
            self.oracle.client_tids.add(t.tid)

    # -- display construction ------------------------------------------------
    def _wrap(self, desc):
        return Faulty(build(desc), self.counter)

    def _build_display(self):
        cfg = self.cfg
        if self.kind == "live":
            from rich.live import Live

            self.cur = [self._wrap(self.case["init"])]
            self.cur_desc = [self.case["init"]]
            self.display = Live(self.cur[0], console=self.console, auto_refresh=cfg["auto_refresh"],
                                refresh_per_second=cfg["rps"], transient=cfg["transient"],
                                redirect_stdout=cfg["redirect"], redirect_stderr=cfg["redirect"],
                                vertical_overflow=cfg["overflow"])
        elif self.kind == "status":
            from rich.status import Status

            self.cur_desc = [self.case["init"]]
            self.display = Status(self._wrap(self.case["init"]), console=self.console, refresh_per_second=cfg["rps"])
        else:
            from rich.progress import Progress, ProgressColumn
            from rich.text import Text

            counter = self.counter

            class CountColumn(ProgressColumn):
                def render(self, task):
                    counter.tick()
                    return Text("%s/%s" % (task.completed, task.total))

            def stock():
                # the stock columns, with the per-column render cache (max_refresh, a public
                # attribute) switched off: with it, what a column shows depends on when it was last
                # rendered, and the mirror is rendered at other moments than the display
                from rich.progress import BarColumn, TextColumn, TimeRemainingColumn

                cols = (TextColumn("[progress.description]{task.description}"), BarColumn(),
                        TextColumn("[progress.percentage]{task.percentage:>3.0f}%"), TimeRemainingColumn())
                for c in cols:
                    c.max_refresh = None
                return cols

            cols = stock() if cfg.get("columns") == "default" else ("{task.description}", CountColumn())
            self.display = Progress(*cols, console=self.console,
                                    auto_refresh=cfg["auto_refresh"], refresh_per_second=cfg["rps"],
                                    transient=cfg["transient"], redirect_stdout=cfg["redirect"],
                                    redirect_stderr=cfg["redirect"], get_time=self.clock.time)
            self.ids = []
            self.mirror = None
            if cfg.get("columns") == "default":
                class Mirror(Progress):
                    # remembers the table its most recent refresh() built: update(refresh=True)
                    # refreshes *before* it records the finish time, add_task/reset refresh at
                    # their end -- the mirror goes through the very same code, so it is in step
                    last_table = None

                    def get_renderable(self):
                        self.last_table = Progress.get_renderable(self)
                        return self.last_table

                self.mirror = Mirror(*stock(), console=self.pristine.console(), auto_refresh=False, get_time=self.clock.time)
                self.mirror_ids = []
                self.mirror.refresh()
                self.mirror_tab = self.mirror.last_table
                self.mirror_before = None

    # -- expected frames -----------------------------------------------------
    def _frame_rows(self, desc, final):
        key = json.dumps(desc, sort_keys=True)
        if key not in self.frame_cache:
            if self.kind == "status":
                rows = self._status_rows(desc)
            else:
                rows = self.pristine.render_rows(build(desc))
            self.frame_cache[key] = rows
        rows = self.frame_cache[key]
        overflow = "visible" if final else self.cfg["overflow"]
        if self.kind == "status":
            overflow = "visible" if final else "ellipsis"
        return crop_frame(rows, overflow, self.cfg["height"], self.oracle.ellipsis_row())

    def _status_rows(self, desc):
        from rich.spinner import Spinner
        from rich.table import Table

        table = Table.grid(padding=1)
        table.add_row(Spinner("dots", style="status.spinner"), build(desc))
        return self.pristine.rows(lambda c: c.print(table))

    def _progress_rows(self, tasks):
        key = json.dumps(tasks, sort_keys=True)
        if key not in self.frame_cache:
            from rich.table import Table

            table = Table.grid(padding=(0, 1))
            table.add_column(no_wrap=True)
            table.add_column(no_wrap=True)
            for t in tasks:
                if t["visible"]:
                    table.add_row(t["description"], "%s/%s" % (t["completed"], t["total"]))
            self.frame_cache[key] = self.pristine.rows(lambda c: c.print(table))
        return self.frame_cache[key]

    def frames(self, why):
        final = why == "final"
        out = []
        if self.kind in ("live", "status"):
            for d in (self.cur_desc if why == "helper" else self.cur_desc[-1:]):
                fr = self._frame_rows(d, final)
                if fr not in out:
                    out.append(fr)
            return out
        if why == "print":
            # Progress re-renders the table built at its last refresh: a print shows the
            # most recently *refreshed* frame, not the current task state
            out.append(self.oracle.frame if self.oracle.frame is not None else [])
            if not self.cfg["auto_refresh"]:
                return out
            # (with the refresh thread the table of the most recent refresh may differ from the
            # frame on screen, because a print that rendered earlier may have written later)
            lr = self.oracle.last_refresh_frame
            if lr is not None and lr not in out:
                out.append(lr)
            # ... unless the refresh thread has already installed a newer table (set_renderable
            # happens before its write): then the print shows that one; or the print rendered the
            # table before the refresh thread replaced it and wrote after: then it shows the frame
            # that was on screen when the print began (stale content for one refresh period; the
            # cursor accounting must still be exact)
            if self.frame_at_op_begin is not None and self.frame_at_op_begin not in out:
                out.append(self.frame_at_op_begin)
        if self.mirror is not None:
            tabs = [self.mirror_tab]
            if self.mirror_before is not None and why in ("helper", "print"):
                tabs.append(self.mirror_before)
            for tab in tabs:
                key = ("tab", id(tab))
                if key not in self.frame_cache:
                    self.frame_cache[key] = (tab, self.pristine.rows(lambda c: c.print(tab)))
                fr = self.frame_cache[key][1]
                if fr not in out:
                    out.append(fr)
            return out
        states = [self._alive(self.tasks)]
        if self.model_before is not None and why in ("helper", "print"):
            states.append(self._alive(self.model_before))
        for s in states:
            fr = self._progress_rows(s)
            if fr not in out:
                out.append(fr)
        return out

    def _alive(self, tasks):
        return [{k: t[k] for k in ("description", "completed", "total", "visible")} for t in tasks if not t.get("removed")]

    def in_own_write(self):
        me = self.sim.me()
        return me is not None and me.tid in self.oracle.client_tids

    # -- client --------------------------------------------------------------
    def body(self):
        ops = self.case["ops"]
        fault = self.fault
        o = self.oracle
        try:
            for op in self.case.get("pre", []):
                self.do(op)
            self._op_start(via_enter=True)
            with self.display:
                self._after_start()
                for p, op in enumerate(ops):
                    self.sim.yield_point("op")
                    if fault and fault["type"] == "body" and fault["pos"] == p:
                        self._body_fault()
                    self.do(op)
                if fault and fault["type"] == "body" and fault["pos"] == len(ops):
                    self._body_fault()
                self._op_stop_begin()
            self._op_stop_end()
        except FAULTS as e:
            self.caught = e
            o.stop_checks = True
        except sched.SimAbort:
            raise
        except BaseException as e:  # anything else escaping the block is reported
            self.other_exc = e
            import traceback

            self.other_tb = traceback.format_exc()
            o.stop_checks = True
        self.post_checks()
        al = self.case.get("afterlife")
        fired = self.counter.fired > 0 or self.probes["body_fault_fired"] > 0
        if al and fired and o.viol is None and not self.viol and self.other_exc is None and not o.relaxed and not o.tags:
            self._afterlife(al)

    def _afterlife(self, ops):
        """Second run of the same display object after a block that was left by a fault, on a
        terminal that has been cleared in between (fresh screen model, fresh oracle state)."""
        cfg = self.cfg
        old = self.oracle
        o = self.oracle = DisplayOracle(self.sim, cfg["width"], cfg["height"], self.pristine, kind=self.kind,
                                        transient=cfg["transient"], overflow=cfg["overflow"])
        o.client_tids = set(old.client_tids)
        o.frames_fn = self.frames
        self.file.on_write = o.on_write
        self.started = False
        self.pending_out = {"o": "", "e": ""}
        self.probes["afterlife_runs"] = self.probes.get("afterlife_runs", 0) + 1
        fired_before = self.counter.fired
        try:
            self._op_start()
            self.display.start()
            self._after_start()
            for op in ops:
                self.sim.yield_point("op")
                self.do(op)
            self._op_stop_begin()
            self.display.stop()
            self._op_stop_end()
        except FAULTS:
            o.stop_checks = True
            return
        if self.counter.fired != fired_before:
            return
        if not o.scr.cursor_visible:
            self.viol.append(("cleanup", "cursor-hidden-after-exit", "cursor hidden after the second run of the display (after a faulted first run)"))
        if sys.stdout is not self.stdout_sentinel or sys.stderr is not self.stderr_sentinel:
            self.viol.append(("cleanup", "stdio-not-restored", "stdout/stderr still redirected after the second run of the display"))
            sys.stdout, sys.stderr = self.stdout_sentinel, self.stderr_sentinel

    def _body_fault(self):
        self.probes["body_fault_fired"] += 1
        self.oracle.stop_checks = True
        raise (InjectedInterrupt if self.fault.get("base") else InjectedFault)("C10-fault")

    def _op_start(self, via_enter=False):
        o = self.oracle
        if self.started:
            o.begin_op("start(noop)", [])
            return
        if self.probes.get("_stopped_once"):
            self.probes["restart"] += 1
        o.cursor_hidden_expected = None
        o.hooked = True
        if self.kind == "progress":
            self._mirror(lambda m: m.refresh())  # Progress.start() refreshes
        o.begin_op("start", [("frame",)], optional_frame=not (self.kind == "progress"))

    def _after_start(self):
        o = self.oracle
        o.end_op()
        if not self.started:
            self.started = True
            o.cursor_hidden_expected = True

    def _op_stop_begin(self):
        o = self.oracle
        if not self.started:
            o.begin_op("stop(noop)", [])
            return
        o.cursor_hidden_expected = None
        if o.tracker is not None:
            o.tracker.stop_begin()
        if self.kind == "progress":
            self._mirror(lambda m: m.refresh())  # stop() refreshes one last time
        stages = [("final",), ("erase",) if self.cfg["transient"] else ("freeze",)]
        # redirected output is never lost: the partial lines still pending in the proxies come
        # out as lines of their own (stdout's first) before the display takes its last frame
        for ch in "eo":
            if self.pending_out[ch]:
                from rich.text import Text

                self.probes["partial_line_pending_at_stop"] += 1
                line, self.pending_out[ch] = self.pending_out[ch], ""
                stages.insert(0, ("print", self._print_rows(lambda c: c.print(Text(line)))))
        o.begin_op("stop", stages)

    def _op_stop_end(self):
        o = self.oracle
        if self.started:
            o.hooked = False
        o.end_op()
        if self.started and o.tracker is not None:
            o.tracker.stop_end()
        if self.started:
            self.started = False
            self.probes["_stopped_once"] = 1
            o.cursor_hidden_expected = False
            if self.kind == "progress":
                # LiveRender pads to the tallest frame ever drawn: a later display starts afresh
                pass

    def _print_rows(self, fn):
        return self.pristine.rows(fn)

    def do(self, op):
        o = self.oracle
        k = op[0]
        self.frame_at_op_begin = o.frame
        con = self.console
        if k == "print":
            r = build(op[1])
            # (print options: only with Live, where the frame renderable is at hand for the
            # predicate of known finding C10-F18 below)
            pkw = {"overflow": "ignore", "no_wrap": True} if op[1].get("ignore") and self.kind == "live" else {}
            if pkw:
                self.probes["prints_cropped_by_print"] = self.probes.get("prints_cropped_by_print", 0) + 1
                if self.started and con._render_hooks:
                    # known finding C10-F18: the options of this print also apply to the frame the
                    # hook appends to it; it matters when the frame renders differently under them
                    for d in self.cur_desc:
                        if self.pristine.rows(lambda c: c.print(build(d))) != self.pristine.rows(lambda c: c.print(build(d), **pkw)):
                            self.probes["defect_print_options_reach_frame"] = self.probes.get("defect_print_options_reach_frame", 0) + 1
                            o.tags.add("print-options-reach-frame")
                            break
            rows = self._print_rows(lambda c: c.print(build(op[1]), **pkw))
            o.tokens.append(op[1]["lines"][0].split(" ")[0])
            if self.started:
                self.probes["print_while_live"] += 1
            # end="" is only issued while the display is live (with no display the next print
            # would continue the open line, which the row model of printed lines does not express)
            noeol = len(op) > 2 and op[2] == "noeol" and self.started and bool(con._render_hooks)
            if noeol:
                self.probes["defect_print_without_newline_while_live"] = self.probes.get("defect_print_without_newline_while_live", 0) + 1
                o.tags.add("print-without-newline-while-live")
            o.begin_op(["print", op[1]["lines"][0]], [("print", rows)])
            if noeol:
                if hasattr(r, "end"):
                    r.end = ""  # (a Text carries its own line end; print(end=) applies to strings)
                con.print(r, end="", **pkw)
            else:
                con.print(r, **pkw)
            o.end_op()
        elif k == "printm":
            rows = self._print_rows(lambda c: c.print(*[build(d) for d in op[1]]))
            self.probes["prints_with_several_renderables"] = self.probes.get("prints_with_several_renderables", 0) + 1
            o.begin_op(["printm", op[1][0]["lines"][0]], [("print", rows)])
            con.print(*[build(d) for d in op[1]])
            o.end_op()
        elif k == "block":
            stages = [("print", self._print_rows(lambda c, d=d: c.print(build(d)))) for d in op[1]]
            if self.started:
                self.probes["buffered_blocks_while_live"] = self.probes.get("buffered_blocks_while_live", 0) + 1
            o.begin_op(["block", op[1][0]["lines"][0]], stages)
            with con:
                for d in op[1]:
                    con.print(build(d))
            o.end_op()
        elif k == "line":
            rows = self._print_rows(lambda c: c.line(op[1]))
            self.probes["line_calls"] = self.probes.get("line_calls", 0) + 1
            o.begin_op(op, [("print", rows)])
            con.line(op[1])
            o.end_op()
        elif k == "log":
            rows = self._print_rows(lambda c: c.log(op[1]))
            o.tokens.append(op[1].split(" ")[0])
            o.begin_op(op, [("print", rows)])
            con.log(op[1])
            o.end_op()
        elif k == "rule":
            rows = self._print_rows(lambda c: c.rule(op[1]))
            o.tokens.append(op[1])
            o.begin_op(op, [("print", rows)])
            con.rule(op[1])
            o.end_op()
        elif k == "stdoutp":
            o.begin_op(op, [])
            ch = op[2] if len(op) > 2 else "o"
            if self.started and self.cfg["redirect"]:
                self.pending_out[ch] += op[1]
                self.probes["stdout_partial_writes"] += 1
            (sys.stderr if ch == "e" else sys.stdout).write(op[1])
            o.end_op()
        elif k == "stdout":
            redirected = self.started and self.cfg["redirect"]
            ch = op[2] if len(op) > 2 else "o"
            if redirected:
                from rich.text import Text

                line = self.pending_out[ch] + op[1]
                self.pending_out[ch] = ""
                if ch == "e":
                    self.probes["stderr_lines"] = self.probes.get("stderr_lines", 0) + 1
                extra = op[3] if len(op) > 3 else 0
                if extra:
                    self.probes["stdout_writes_ending_in_blank_lines"] = self.probes.get("stdout_writes_ending_in_blank_lines", 0) + 1
                rows = self._print_rows(lambda c: c.print(Text(line + "\n" * extra)))
                o.tokens.append(op[1].split(" ")[0])
                self.probes["stdout_lines"] += 1
                o.begin_op(op, [("print", rows)])
            else:
                o.begin_op(op, [])
            (sys.stderr if ch == "e" else sys.stdout).write(op[1] + "\n" + "\n" * (op[3] if len(op) > 3 else 0))
            o.end_op()
        elif k == "sleep":
            o.begin_op(op, [])
            self.sim.sleep(op[1])
            o.end_op()
        elif k == "start":
            self._op_start()
            self.display.start()
            self._after_start()
        elif k == "stop":
            self._op_stop_begin()
            self.display.stop()
            self._op_stop_end()
        elif k == "refresh":
            if self.kind == "progress":
                self._mirror(lambda m: m.refresh())
            o.begin_op(op, [("frame",)])
            self.display.refresh()
            o.end_op()
            if self.kind == "progress":
                self._model_done()
        elif k == "update":
            new = self._wrap(op[1])
            self.cur_desc = [self.cur_desc[-1], op[1]]
            o.begin_op(["update", op[2]], [("frame",)] if op[2] else [])
            # the client's own refresh inside update() shows the new renderable
            self.display.update(new, refresh=op[2])
            self.cur_desc = [op[1]]
            o.end_op()
        elif k == "status":
            d = op[1] if op[1] is not None else self.cur_desc[-1]
            opts = op[2] if len(op) > 2 else {}
            if opts:
                self.probes["status_spinner_updates"] = self.probes.get("status_spinner_updates", 0) + 1
            self.cur_desc = [self.cur_desc[-1], d]
            o.begin_op(["status"], [("frame",)])
            self.display.update(self._wrap(op[1]) if op[1] is not None else None, **opts)
            self.cur_desc = [d]
            o.end_op()
        elif k == "add":
            self._model_op(lambda ts: ts.append({"description": op[1], "total": op[2], "completed": 0, "visible": op[3]}))
            self._mirror(lambda m: self.mirror_ids.append(m.add_task(op[1], total=op[2], visible=op[3])))
            o.begin_op(op, [("frame",)])
            tid = self.display.add_task(op[1], total=op[2], visible=op[3])
            self.ids.append(tid)
            self._model_done()
            o.end_op()
        elif k in ("advance", "upd", "remove", "reset"):
            i = op[1]
            if i >= len(self.ids) or self.tasks[i].get("removed"):
                return
            tid = self.ids[i]
            if k == "advance":
                self._model_op(lambda ts: ts[i].__setitem__("completed", ts[i]["completed"] + op[2]))
                self._mirror(lambda m: m.advance(self.mirror_ids[i], op[2]))
                o.begin_op(op, [])
                self.display.advance(tid, op[2])
            elif k == "upd":
                a = op[2]

                def mut(ts):
                    for key in ("completed", "visible", "description"):
                        if key in a:
                            ts[i][key] = a[key]

                self._model_op(mut)
                self._mirror(lambda m: m.update(self.mirror_ids[i], **a))
                o.begin_op(op, [("frame",)] if a.get("refresh") else [])
                self.display.update(tid, **a)
            elif k == "remove":
                self._model_op(lambda ts: ts[i].__setitem__("removed", True))
                self._mirror(lambda m: m.remove_task(self.mirror_ids[i]))
                o.begin_op(op, [])
                self.display.remove_task(tid)
            else:
                self._model_op(lambda ts: ts[i].__setitem__("completed", 0))
                self._mirror(lambda m: m.reset(self.mirror_ids[i]))
                o.begin_op(op, [("frame",)])
                self.display.reset(tid)
            self._model_done()
            o.end_op()
        else:
            raise ValueError(k)

    def _model_op(self, mut):
        self.model_before = copy.deepcopy(self.tasks)
        mut(self.tasks)

    def _model_done(self):
        self.model_before = None
        if self.mirror is not None:
            self.mirror_before = None

    def _mirror(self, fn):
        """Apply the same operation to the mirror Progress, atomically, at the same virtual instant."""
        if self.mirror is None:
            return
        with self.sim.atomic():
            self.mirror_before = self.mirror_tab
            fn(self.mirror)
            self.mirror_tab = self.mirror.last_table  # unchanged if the operation did not refresh

    # -- post conditions -----------------------------------------------------
    def post_checks(self):
        sim = self.sim
        o = self.oracle
        v = self.viol
        fault = self.fault
        fired = self.counter.fired > 0 or self.probes["body_fault_fired"] > 0
        client_saw_render_fault = self.counter.fired > 0
        if self.other_exc is not None:
            v.append(("exception", "unexpected-exception", "the block raised %s" % self.other_tb[-700:]))
        if self.probes["body_fault_fired"] and (self.caught is None or self.caught.fault_id != "C10-fault"):
            v.append(("propagation", "fault-swallowed", "an exception raised in the body of the block did not propagate out of it"))
        # (helper threads: whether they terminate is judged by the scheduler at the end of the
        # run -- a refresh thread whose `done` event is never set keeps firing timers until the
        # virtual-time cap, reported as a liveness violation.  stop() may legitimately return
        # before the thread has observed `done` when its final refresh raised.)
        for t in sim.threads:
            if t.kind == "helper" and t.exc is not None:
                if isinstance(t.exc, FAULTS):
                    self.probes["fault_in_helper_thread"] += 1
                else:
                    v.append(("exception", "helper-exception", "%s died: %s" % (t.name, (t.tb or "")[-500:])))
        if client_saw_render_fault and self.caught is None and not self.probes["fault_in_helper_thread"] and self.other_exc is None:
            v.append(("propagation", "fault-swallowed", "an exception raised by the renderable did not propagate out of the block"))
        # whatever went wrong, printed lines are never taken back: every row that had been printed
        # (and verified on screen) before the fault is still there, in order ("no printed line
        # overwritten" is not conditional on the absence of exceptions)
        if fired and not o.relaxed and o.viol is None and "progress-frame-exceeds-screen" not in o.tags and "print-without-newline-while-live" not in o.tags and "print-options-reach-frame" not in o.tags:
            have = [r for r in o.scr.all_cells() if r]
            pos = 0
            for row in o.committed:
                try:
                    pos = have.index(row, pos) + 1
                except ValueError:
                    v.append(("screen", "printed-line-lost-after-fault", "after the exception a printed line is gone from the screen: %r (fault=%r); screen now %r" % (
                        "".join(ch for ch, _ in row), fault, ["".join(ch for ch, _ in r) for r in have][:12])))
                    break
        if not o.scr.cursor_visible:
            v.append(("cleanup", "cursor-hidden-after-exit", "cursor still hidden after the block exited (fault=%r)" % (fault,)))
        if sys.stdout is not self.stdout_sentinel or sys.stderr is not self.stderr_sentinel:
            v.append(("cleanup", "stdio-not-restored", "sys.stdout/sys.stderr still redirected after the block exited (fault=%r)" % (fault,)))
            sys.stdout, sys.stderr = self.stdout_sentinel, self.stderr_sentinel
        # behavioural probe: a print now is one plain write (hook gone, buffer depth zero)
        from rich.text import Text

        n0 = len(self.file.writes)
        expect = self.pristine.bytes(lambda c: c.print(Text("ZZprobe")))
        o.stop_checks = True
        self.console.print(Text("ZZprobe"))
        got = [w[2] for w in self.file.writes[n0:]]
        if got != [expect]:
            v.append(("cleanup", "hook-not-restored", "a print after the block produced writes %r, expected exactly [%r] (fault=%r)" % (
                [g[:80] for g in got], expect, fault)))
        else:
            self.probes["post_probe_ok"] += 1
        hooks = getattr(self.console, "_render_hooks", None)
        if hooks:
            v.append(("cleanup", "hook-not-restored", "console._render_hooks still has %d entries" % len(hooks)))

    def finish(self):
        sim = self.sim
        viols = []
        if self.oracle.viol is not None:
            viols.append(self.oracle.viol)
        for oracle, sig, msg in self.viol:
            viols.append({"oracle": oracle, "sig": sig, "msg": msg, "seq": sim.seq})
        for t in sim.threads:
            if t.kind == "client" and t.exc is not None:
                viols.append({"oracle": "exception", "sig": "client-exception:" + type(t.exc).__name__,
                              "msg": "client died: %s" % (t.tb or "")[-700:], "seq": sim.seq})
        self.probes["render_calls"] = self.counter.calls
        if self.fault and self.fault.get("base") and (self.counter.fired or self.probes["body_fault_fired"]):
            self.probes["base_exception_faults"] += 1
        self.probes["render_fault_fired"] = self.counter.fired
        probes = dict(self.oracle.probe)
        probes.update({k: v for k, v in self.probes.items() if not k.startswith("_")})
        probes["timer_between_ops"] = sim.stats["timer_fired_by_choice"]
        faults = {"body_exception": self.probes["body_fault_fired"], "render_exception": self.counter.fired,
                  "timer_fired_by_choice": sim.stats["timer_fired_by_choice"]}
        return {"violations": viols, "faults": faults, "probes": probes, "nontrivial": len(self.case["ops"]) > 0,
                "sample": {"kind": self.kind, "cfg": self.cfg, "ops": self.case["ops"][:8], "fault": self.fault}}


C10.rule = ("histories drawn from VERIF_SEED over Live/Progress/Status x {transient} x {crop,ellipsis,visible} x widths/heights; "
            "for each fault-free history every crash point is enumerated (exception at each body position, and at each render-call "
            "index, once and persistently; sampled down to 10/60 per history in quick/thorough); a run is non-trivial when the history "
            "has >=1 operation; distinct = distinct (history, fault, switch-signature)")
C10.components_real = ["rich.live (Live, _RefreshThread, _LiveRender)", "rich.live_render", "rich.progress (Progress, _RefreshThread)",
                       "rich.status", "rich.console", "rich.file_proxy", "rich.control", "renderers (text/table/panel/segment/style)"]
C10.components_stub = ["threading primitives -> dsim", "OS scheduler -> seeded baton passing", "clock -> SimClock",
                       "terminal -> SimFile + dsim.term screen model (xterm-like VT subset)", "sys.stdout/sys.stderr -> StringIO sentinels"]
C10.assumptions = ["the terminal behaves like the VT-subset model (LF implies CR, deferred wrap, cursor-up clamps at the window top)",
                   "blank rows are ignored when screens are compared (Progress pads frames to the tallest height seen)",
                   "expected rows come from pristine renders by rich itself: layout is trusted, cursor control / ordering is not",
                   "known findings: C10-F17 (a print without trailing newline was issued while the display was live, earlier in the history), C10-F18 (a print with overflow/no_wrap options was issued while live and the current frame renders differently under those options), C10-F3 (transient and last frame >= screen height), C10-F4 (Progress and a frame or its padded height > screen height), C10-F6 (failing write in a critical span that overlaps the refresh thread AND one side is a print/log); each suppresses only violations for which its predicate holds",
                   "Status: the spinner glyph is time dependent and compared as a wildcard cell",
                   "resize, Jupyter, legacy Windows and dumb terminals are not simulated"]
CHECK = C10()
