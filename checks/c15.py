"""C15 — recording, capture and export agree with what was written.

The property is about routing: every segment must reach exactly the right subset of
three sinks (file, record, capture), in the same order in each.  The sinks are shared
between threads (record under _record_buffer_lock, file under _lock) or thread-local
(capture), and the file is a stream seam; so the deciding runs are histories across
threads under the scheduler, single-thread histories being the fault-free baseline.
Real code: rich.console (print/log/rule/line/out/control, capture, export_text,
export_html), rich.segment (simplify, filter_control), rich.style.
"""
import copy
import html
import re

from dsim import sched, seams, term
from dsim.programs import FAULTS, InjectedFault, InjectedInterrupt, Pristine
from dsim.seams import SimClock, SimFile

PROP = "C15"
TOKEN = re.compile(r"K\d+_\d+z")
PIECES = ["alpha", "be ta", "<tag>", "a&b", "&amp;", "x>y", "\"q\"", "漢字", "é", "😀", "[x]", "a_b", "1 < 2 && 3 > 2", "tab", "'",
          # text that looks like the placeholders of the HTML page template
          "{foreground} {stylesheet}", "{code}", "{x} }{"]
STYLES = ["", "", "bold", "italic red", "underline on blue", "dim #ff8800", "reverse color(120)", "strike bright_green",
          "bold link https://example.org/a?b=1&c=<2>", "link https://e.x/"]
COLORS = [None, "standard", "256", "truecolor"]


def html_text(fragment):
    """Text content of an HTML fragment: tags removed, entities decoded (a real parser: quoted
    attribute values may legally contain '<' and '>')."""
    from html.parser import HTMLParser

    out = []

    class P(HTMLParser):
        def handle_data(self, data):
            out.append(data)

    p = P(convert_charrefs=True)
    p.feed(fragment)
    p.close()
    return "".join(out)


def styled_chars(data, colors=True):
    """Tokenizer-level decode: [(char, pen-key)] ignoring cursor/erase controls."""
    pen = term.Pen()
    out = []
    for tok in term.tokens(data):
        if tok[0] == "text":
            k = pen.key()
            if k is not None and not colors:
                k = (k[0], None, None, k[3])
                if k == ((), None, None, None):
                    k = None
            out.extend((ch, k) for ch in tok[1])
        elif tok[0] == "ctl":
            if tok[1] == "\n":
                out.append(("\n", None))
        elif tok[0] == "csi":
            if tok[2] == "m":
                pen.sgr(tok[1])
        elif tok[0] == "osc" and tok[1].startswith("8;"):
            pen.link = tok[1][2:].partition(";")[2] or None
    return out


_CURRENT = [None]


class _SaveFile:
    """What rich.console's `open(path, "wt")` returns in simulation: an in-memory file whose
    open and write are yield points."""

    def __init__(self, prog):
        self.prog = prog
        self.buf = []

    def write(self, text):
        self.prog.sim.yield_point("save-write")
        self.buf.append(text)
        return len(text)

    def __enter__(self):
        return self

    def __exit__(self, *exc):
        return False

    def getvalue(self):
        return "".join(self.buf)


def _fake_open(path, mode="r", *args, **kwargs):
    prog = _CURRENT[0]
    if prog is None or not str(path).startswith("sim://"):
        import builtins

        return builtins.open(path, mode, *args, **kwargs)
    prog.sim.yield_point("save-open")
    f = prog.save_files[path] = _SaveFile(prog)
    return f


class _Boom:
    """A renderable that raises before it yields anything."""

    def __init__(self, how):
        self.how = how

    def __rich_console__(self, console, options):
        raise (InjectedInterrupt if self.how == "base" else InjectedFault)("C15-render")
        yield ""  # pragma: no cover


class _Segs:
    """A user renderable that yields raw segments (empty ones included) and ends its line."""

    def __init__(self, parts):
        self.parts = parts

    def __rich_console__(self, console, options):
        from rich.segment import Segment

        for s, st in self.parts:
            yield Segment(s, console.get_style(st) if st else None)
        yield Segment.line()


class C15:
    prop = PROP
    level = "exploration"
    line_modules = seams.TARGET_MODULES
    policy_weights = (0.45, 0.25, 0.2, 0.1)  # random walk, PCT, single pre-emption, race-directed (DESIGN 3.3)

    def opcode_modules(self, case):
        return ("rich.console",) if case["cfg"].get("opcode") else ()

    def policy(self, case, rng):
        from dsim import harness

        if len(case["threads"]) == 1:
            return {"kind": "none"}
        return harness.draw_policy(rng, self.policy_weights)

    def gen(self, rng, tier, idx):
        thorough = tier == "thorough"
        nthreads = 1 if rng.random() < 0.55 else rng.randint(2, 3)
        cfg = {"width": rng.choice([20, 40, 80]), "color": rng.choice(COLORS), "terminal": rng.random() < 0.6,
               "opcode": nthreads > 1 and rng.random() < 0.5}
        if rng.random() < 0.12:
            cfg["no_color"] = True  # colours are removed on the way to the file (attributes stay)
        threads = []
        for t in range(nthreads):
            n = rng.randint(1, (20 if thorough else 10) if nthreads == 1 else 5)
            ops = []
            cnt = [0]
            for _ in range(n):
                ops.append(self._gen_op(rng, t, cnt, nthreads == 1))
            threads.append(ops)
        final = [["export_text", False, False], ["export_html", False, rng.random() < 0.5], ["export_text", False, True],
                 ["export_text", True, False], ["export_text", False, False]]
        mt_mode = "prefix"
        if nthreads > 1 and rng.random() < 0.4:
            # drain mode: threads take *clearing* exports while others print; every piece of output
            # must come out of exactly one of them (or of the final clearing export)
            mt_mode = "drain"
            for ops in threads:
                for j, op in enumerate(ops):
                    if op[0] == "export_text":
                        ops[j] = ["export_text", True, False, rng.random() < 0.4] if rng.random() < 0.5 else ["export_html", True, rng.random() < 0.5, rng.random() < 0.4]
            final = [["export_text", True, False]]
        return {"cfg": cfg, "threads": threads, "final": final, "mt_mode": mt_mode}

    def _gen_text(self, rng, t, cnt):
        cnt[0] += 1
        parts = [["K%d_%dz" % (t, cnt[0]), rng.choice(STYLES)]]
        for _ in range(rng.randint(0, 3)):
            parts.append([rng.choice([" ", ""]) + rng.choice(PIECES), rng.choice(STYLES)])
        if rng.random() < 0.2:
            parts.append(["\n" + rng.choice(PIECES), rng.choice(STYLES)])
        return parts

    def _gen_segs(self, rng, t, cnt):
        """Raw segments of a user renderable: some with empty text (an indent of zero width, an
        empty cell), in front, in the middle or at the end."""
        cnt[0] += 1
        parts = [["K%d_%dz" % (t, cnt[0]), rng.choice(STYLES[:8])]]
        for _ in range(rng.randint(0, 2)):
            parts.append([rng.choice([" ", ""]) + rng.choice(PIECES[:12]), rng.choice(STYLES[:8])])
        for _ in range(rng.randint(1, 2)):
            parts.insert(rng.choice([0, 0, rng.randrange(len(parts) + 1)]), ["", rng.choice(STYLES[:8])])
        return ["segs", parts]

    def _gen_kw(self, rng):
        """Formatting options of print(): they change which characters are written."""
        kw = {}
        r = rng.random()
        if r < 0.25:
            kw["end"] = rng.choice(["", " ", "\n\n", ""])
        elif r < 0.35:
            kw["soft_wrap"] = True
        elif r < 0.45:
            kw["justify"] = rng.choice(["left", "center", "right", "full"])
        elif r < 0.55:
            kw["no_wrap"] = True
            kw["overflow"] = rng.choice(["crop", "ellipsis", "fold", "ignore"])
        elif r < 0.6:
            kw["crop"] = False
        elif r < 0.66:
            kw["width"] = rng.choice([10, 20, 33])
        elif r < 0.7:
            kw["markup"] = False
        return kw

    def _gen_inner(self, rng, t, cnt, depth):
        """What may stand inside a capture block: any output operation, also buffered blocks."""
        r = rng.random()
        if r < 0.45:
            return ["print", self._gen_text(rng, t, cnt), "", self._gen_kw(rng) if rng.random() < 0.3 else {}]
        if r < 0.55:
            cnt[0] += 1
            return ["log", "K%d_%dz %s" % (t, cnt[0], rng.choice(PIECES[:9]))]
        if r < 0.62:
            cnt[0] += 1
            return ["rule", "K%d_%dz" % (t, cnt[0])]
        if r < 0.7:
            return ["line", rng.choice([1, 2])]
        if r < 0.78:
            cnt[0] += 1
            return ["out", "K%d_%dz %s" % (t, cnt[0], rng.choice(PIECES)), rng.choice(STYLES)]
        if r < 0.81:
            return ["bell"]
        if r < 0.83:
            return self._gen_segs(rng, t, cnt)
        if r < 0.84:
            return ["control", rng.choice(["", "", "\x07"])]
        if r < 0.87:
            # a print whose only renderable raises before it yields anything; the program catches
            # the exception and carries on: the failed print contributes nothing, and whatever
            # was printed before and after it in the same block must be untouched
            return ["failprint", rng.choice(["exc", "base"])]
        if depth < 2:
            if r < 0.93:
                return ["block", [self._gen_inner(rng, t, cnt, depth + 1) for _ in range(rng.randint(1, 2))]]
            # a capture nested in a capture or in a buffered block
            return ["capture", [self._gen_inner(rng, t, cnt, depth + 1) for _ in range(rng.randint(1, 2))], None]
        return ["print", self._gen_text(rng, t, cnt), ""]

    def _gen_op(self, rng, t, cnt, single):
        r = rng.random()
        if r < 0.4:
            return ["print", self._gen_text(rng, t, cnt), rng.choice(STYLES) if rng.random() < 0.2 else "", self._gen_kw(rng) if rng.random() < 0.3 else {}]
        if r < 0.47:
            cnt[0] += 1
            return ["log", "K%d_%dz %s" % (t, cnt[0], rng.choice(PIECES[:9]))]
        if r < 0.52:
            cnt[0] += 1
            return ["rule", "K%d_%dz" % (t, cnt[0])]
        if r < 0.57:
            return ["line", rng.choice([1, 1, 2, 3])]
        if r < 0.63:
            cnt[0] += 1
            return ["out", "K%d_%dz %s" % (t, cnt[0], rng.choice(PIECES)), rng.choice(STYLES)]
        if r < 0.655:
            return ["bell"]
        if r < 0.675:
            return self._gen_segs(rng, t, cnt)
        if r < 0.68:
            return ["control", rng.choice(["", "", "\x07"])]
        if r < 0.69:
            return ["failprint", rng.choice(["exc", "base"])]
        if r < 0.71:
            return ["clear", rng.random() < 0.5]
        if r < 0.75:
            return ["show_cursor", rng.random() < 0.5]
        if r < 0.85:
            return ["capture", [self._gen_inner(rng, t, cnt, 0) for _ in range(rng.randint(1, 3))],
                    rng.choice([None, None, None, "exc", "base"])]
        if r < 0.865:
            return ["block", [self._gen_inner(rng, t, cnt, 1) for _ in range(rng.randint(1, 3))]]
        if r < 0.9 and rng.random() < 0.6:
            # an output operation during which the file fails: either the write is refused (nothing
            # of it reaches the file) or the write is taken and the flush after it reports an error
            inner = self._gen_inner(rng, t, cnt, 2)
            while inner[0] in ("bell", "capture"):
                inner = self._gen_inner(rng, t, cnt, 2)
            return ["ioerr", rng.choice(["write", "flush", "write2"]), inner]
        if r < 0.88:
            cnt[0] += 1
            return ["markup", "K%d_%dz [bold]b[/bold] [link=https://e.x/?a=1&b=2]l[/link] \\[esc] &lt;" % (t, cnt[0])]
        if not single:
            if r < 0.94:
                return ["export_text", False, False, rng.random() < 0.3]
            return ["print", self._gen_text(rng, t, cnt), ""]
        if r < 0.94:
            return ["export_text", rng.random() < 0.4, rng.random() < 0.4, rng.random() < 0.3]
        return ["export_html", rng.random() < 0.4, rng.random() < 0.5, rng.random() < 0.3]

    def setup(self, sim, case, env):
        return Prog(sim, case, env)

    def finish(self, sim, case, prog):
        return prog.finish()

    def shrink(self, case):
        th = case["threads"]
        if len(th) > 1:
            for i in range(len(th) - 1, -1, -1):
                c = copy.deepcopy(case)
                del c["threads"][i]
                yield c
        for i in range(len(th)):
            for j in range(len(th[i]) - 1, -1, -1):
                c = copy.deepcopy(case)
                del c["threads"][i][j]
                yield c
        for j in range(len(case["final"]) - 1, -1, -1):
            c = copy.deepcopy(case)
            del c["final"][j]
            yield c
        for i in range(len(th)):
            for j, op in enumerate(th[i]):
                if op[0] in ("capture", "block") and len(op[1]) > 1:
                    for k in range(len(op[1]) - 1, -1, -1):
                        c = copy.deepcopy(case)
                        del c["threads"][i][j][1][k]
                        yield c
                if op[0] == "capture" and len(op) > 2 and op[2]:
                    c = copy.deepcopy(case)
                    c["threads"][i][j][2] = None
                    yield c
                if op[0] == "print" and len(op[1]) > 1:
                    for k in range(len(op[1]) - 1, 0, -1):
                        c = copy.deepcopy(case)
                        del c["threads"][i][j][1][k]
                        yield c
                if op[0] == "print" and len(op) > 3 and op[3]:
                    c = copy.deepcopy(case)
                    c["threads"][i][j][3] = {}
                    yield c
                if op[0] == "print":
                    for k, part in enumerate(op[1]):
                        if part[1]:
                            c = copy.deepcopy(case)
                            c["threads"][i][j][1][k][1] = ""
                            yield c
        for key, val in (("color", None), ("terminal", False), ("opcode", False), ("no_color", None)):
            if case["cfg"].get(key) != val:
                c = copy.deepcopy(case)
                c["cfg"][key] = val
                yield c


class Prog:
    def __init__(self, sim, case, env):
        from rich.console import Console

        self.sim = sim
        self.case = case
        cfg = self.cfg = case["cfg"]
        self.clock = SimClock(sim, env.clock_rng, mode="frozen")
        self.file = SimFile(sim, tty=cfg["terminal"])
        self.console = Console(file=self.file, width=cfg["width"], height=25, force_terminal=cfg["terminal"],
                               color_system=cfg["color"], _environ={}, get_time=self.clock.time, get_datetime=self.clock.datetime,
                               log_time=False, log_path=False, record=True, no_color=bool(cfg.get("no_color")))
        self.pristine = Pristine(cfg["width"], 25, cfg["color"], clock=self.clock, terminal=cfg["terminal"], no_color=bool(cfg.get("no_color")))
        self.viol = []
        self.save_files = {}
        self.nsaves = 0
        _CURRENT[0] = self
        import rich.console as _rc

        _rc.open = _fake_open  # file seam for save_text / save_html (module global shadows the builtin)
        self.rec_start = 0  # index into file.writes at the last clearing export
        self.n = len(case["threads"])
        self.done = 0
        self.single = self.n == 1
        self.captured_tokens = set()
        self.mid_exports = []
        self.drained = []
        self.probes = {"captures_left_by_exception": 0, "exports_text": 0, "exports_html": 0, "exports_styled": 0, "captures": 0, "clearing_exports": 0,
                       "control_ops": 0, "links": 0, "html_special_chars": 0, "multi_thread_runs": int(self.n > 1)}
        for t in range(self.n):
            sim.spawn(self._body(t), "c%d" % t)

    def _v(self, oracle, sig, msg):
        if not self.viol:
            self.viol.append({"oracle": oracle, "sig": sig, "msg": msg, "seq": self.sim.seq})

    def _body(self, t):
        def run():
            try:
                for op in self.case["threads"][t]:
                    self.sim.yield_point("op")
                    self.do(t, op)
            finally:
                self.done += 1
                if self.done == self.n:
                    order = TOKEN.findall(self.visible_since())
                    for toks in self.mid_exports:
                        toks = [x for x in toks if x not in self.captured_tokens]  # (those are judged by the final export)
                        if toks != order[:len(toks)]:
                            self._v("export-text", "concurrent-export-not-prefix", "an export taken while other threads were printing returned tokens %r, not a prefix of the file order %r" % (toks[:20], order[:20]))
                    for op in self.case["final"]:
                        self.do(t, op, final=True)
        return run

    def _text(self, parts):
        from rich.text import Text

        tx = Text()
        for s, st in parts:
            tx.append(s, style=st or None)
            if "link" in st:
                self.probes["links"] += 1
            if any(ch in s for ch in "<>&"):
                self.probes["html_special_chars"] += 1
        return tx

    def _emit(self, con, op):
        k = op[0]
        if k == "print":
            kw = op[3] if len(op) > 3 else {}
            if kw:
                self.probes["prints_with_options"] = self.probes.get("prints_with_options", 0) + 1
            con.print(self._text(op[1]), style=op[2] or None, **kw)
        elif k == "markup":
            con.print(op[1])
        elif k == "log":
            con.log(op[1])
        elif k == "rule":
            con.rule(op[1])
        elif k == "line":
            con.line(op[1])
        elif k == "out":
            con.out(op[1], style=op[2] or None)
        elif k == "bell":
            con.bell()
        elif k == "segs":
            if con is self.console:
                self.probes["raw_segment_prints"] = self.probes.get("raw_segment_prints", 0) + 1
            con.print(_Segs(op[1]))
        elif k == "control":
            con.control(op[1])
        elif k == "clear":
            con.clear(op[1])
        elif k == "show_cursor":
            con.show_cursor(op[1])
        elif k == "block":
            with con:
                for x in op[1]:
                    self._emit(con, x)
        elif k == "capture":
            self._capture(con, op, nested=True)
        elif k == "failprint":
            try:
                con.print(_Boom(op[1]))
            except FAULTS:
                if con is self.console:
                    self.probes["failed_prints"] = self.probes.get("failed_prints", 0) + 1
            else:
                if con is self.console:
                    self._v("print", "fault-swallowed", "a renderable's exception did not come out of print()")
        else:
            raise ValueError(k)

    def visible_since(self):
        return term.visible_text("".join(w[2] for w in self.file.writes[self.rec_start:]))

    def _export_text(self, con, op, **kw):
        """export_text, or save_text to a simulated file when the operation says so."""
        if len(op) > 3 and op[3]:
            self.nsaves += 1
            self.probes["saves"] = self.probes.get("saves", 0) + 1
            path = "sim://t%d-%d.txt" % (self.sim.me().tid, self.nsaves)
            con.save_text(path, **kw)
            return self.save_files.pop(path).getvalue()
        return con.export_text(**kw)

    def _export_html(self, con, op, **kw):
        if len(op) > 3 and op[3]:
            self.nsaves += 1
            self.probes["saves"] = self.probes.get("saves", 0) + 1
            path = "sim://t%d-%d.html" % (self.sim.me().tid, self.nsaves)
            con.save_html(path, **kw)
            return self.save_files.pop(path).getvalue()
        return con.export_html(**kw)

    def _expected(self, ops):
        """The bytes a capture around `ops` has to return: what each operation would have written on
        its own, in order; a nested capture keeps its output to itself; a buffered block is its parts."""
        out = ""
        for x in ops:
            if x[0] == "capture":
                continue
            if x[0] == "block":
                out += self._expected(x[1])
            else:
                out += self.pristine.bytes(lambda c: self._emit(c, x))
        return out

    def _capture(self, con, op, nested=False):
        self.probes["captures"] += 1
        if nested:
            self.probes["captures_nested"] = self.probes.get("captures_nested", 0) + 1
        exp = self._expected(op[1])
        for tok in TOKEN.findall(exp):
            self.captured_tokens.add(tok)
        n0 = len(self.file.writes)
        me = self.sim.me().tid
        how = op[2] if len(op) > 2 else None
        raised = None
        cap = con.capture()
        try:
            with cap:
                for x in op[1]:
                    self._emit(con, x)
                if how:
                    self.probes["captures_left_by_exception"] += 1
                    raised = (InjectedInterrupt if how == "base" else InjectedFault)("C15")
                    raise raised
            if how:
                self._v("capture", "capture-swallowed-exception", "an exception raised inside capture() did not propagate")
        except FAULTS as e:
            if e is not raised:
                self._v("capture", "capture-swallowed-exception", "a different exception came out of capture()")
        got = cap.get()
        if seams.scrub_links(got) != seams.scrub_links(exp):
            self._v("capture", "capture-wrong", "capture returned %r, expected %r" % (got[:200], exp[:200]))
        if any(w[1] == me for w in self.file.writes[n0:]):
            self._v("capture", "capture-leaked-to-file", "the capturing thread wrote to the file from inside capture()")

    def do(self, t, op, final=False):
        con = self.console
        k = op[0]
        if k == "capture":
            self._capture(con, op)
        elif k == "ioerr":
            me = self.sim.me().tid
            self.file.armed[me] = op[1]
            try:
                self._emit(con, op[2])
            except OSError:
                self.probes["file_%s_errors" % op[1]] = self.probes.get("file_%s_errors" % op[1], 0) + 1
            finally:
                self.file.armed.pop(me, None)
        elif k in ("export_text", "export_html") and not self.single and self.case.get("mt_mode") == "drain":
            self.probes["draining_exports"] = self.probes.get("draining_exports", 0) + 1
            if k == "export_text":
                text = self._export_text(con, op, clear=True, styles=False)
            else:
                doc = self._export_html(con, op, clear=True, inline_styles=op[2])
                m = re.search(r"<pre[^>]*>(.*)</pre>", doc, re.S)
                text = html_text(m.group(1)) if m else ""
            self.drained.append(TOKEN.findall(text))
            if final:
                order = [x for x in TOKEN.findall(term.visible_text("".join(w[2] for w in self.file.writes)))]
                got = [x for toks in self.drained for x in toks if x not in self.captured_tokens]
                if sorted(got) != sorted(order):
                    lost = [x for x in order if x not in got]
                    dup = sorted(set(x for x in got if got.count(x) > 1))
                    self._v("export-clear", "drain-lost-or-duplicated", "clearing exports taken while other threads print do not add up to the file: lost %r, duplicated %r" % (lost[:10], dup[:10]))
                else:
                    pos = {x: i for i, x in enumerate(order)}
                    for toks in self.drained:
                        idx = [pos[x] for x in toks if x in pos]
                        if idx != sorted(idx):
                            self._v("export-clear", "drain-order", "a clearing export lists output in another order than the file: %r" % toks[:12])
                            break
        elif k == "export_text":
            clear, styles = op[1], op[2]
            if not self.single and not final:
                # concurrent export without clear: whatever it returns must be a prefix of the order
                # in which the output finally reached the file (checked at quiescence)
                self.probes["concurrent_exports"] = self.probes.get("concurrent_exports", 0) + 1
                self.mid_exports.append(TOKEN.findall(self._export_text(con, op, clear=False, styles=False)))
                return
            V = self.visible_since()
            raw = "".join(w[2] for w in self.file.writes[self.rec_start:])
            got = self._export_text(con, op, clear=clear, styles=styles)
            if styles:
                self.probes["exports_styled"] += 1
                try:
                    dec = styled_chars(got)
                except term.TermError as e:
                    self._v("export-styled", "styled-export-undecodable", "export_text(styles=True) is not decodable: %s" % e)
                    return
                if "".join(c for c, _ in dec) != V:
                    self._v("export-styled", "styled-export-text", "export_text(styles=True) decodes to %r, file shows %r" % ("".join(c for c, _ in dec)[:300], V[:300]))
                elif self.cfg["color"] is not None:
                    colors = self.cfg["color"] == "truecolor" and not self.cfg.get("no_color")
                    a = styled_chars(got, colors)
                    b = styled_chars(raw, colors)
                    if a != b:
                        i = next(i for i, (x, y) in enumerate(zip(a, b)) if x != y) if len(a) == len(b) else min(len(a), len(b))
                        self._v("export-styled", "styled-export-style", "export_text(styles=True) differs from the file at char %d: %r vs %r" % (i, a[i:i + 3], b[i:i + 3]))
            else:
                self.probes["exports_text"] += 1
                if got != V:
                    self._v("export-text", self._sig_text(got, V), "export_text() = %r but the file shows %r" % (got[:300], V[:300]))
            self._after_export(clear, lambda: con.export_text(clear=False), got if not styles else None)
        elif k == "export_html":
            clear, inline = op[1], op[2]
            if not self.single and not final:
                return
            self.probes["exports_html"] += 1
            V = self.visible_since()
            doc = self._export_html(con, op, clear=clear, inline_styles=inline)
            m = re.search(r"<pre[^>]*>(.*)</pre>", doc, re.S)
            if not m:
                self._v("export-html", "html-shape", "export_html() has no <pre> body")
                return
            body = html_text(m.group(1))
            if body != V:
                self._v("export-html", self._sig_text(body, V, html_=True), "export_html() text = %r but the file shows %r" % (body[:300], V[:300]))
            self._after_export(clear, lambda: con.export_text(clear=False), None)
        else:
            if k in ("bell", "clear", "show_cursor", "control"):
                self.probes["control_ops"] += 1
            self._emit(con, op)

    def _sig_text(self, got, V, html_=False):
        """Signature: which known defect (if any) explains the difference."""
        gt = TOKEN.findall(got)
        vt = TOKEN.findall(V)
        extra = [x for x in gt if x not in vt]
        if extra and all(x in self.captured_tokens for x in extra):
            return "captured-output-recorded"
        if html_ and any(ord(ch) < 32 and ch != "\n" for ch in got):
            return "control-code-in-html"
        return "html-text-mismatch" if html_ else "export-text-mismatch"

    def _after_export(self, clear, again, got):
        if clear:
            self.probes["clearing_exports"] += 1
            self.rec_start = len(self.file.writes)
            if again() != "":
                self._v("export-clear", "clear-did-not-empty", "export with clear=True left the record non-empty")
        elif got is not None and again() != got:
            self._v("export-clear", "noclear-changed-record", "two consecutive exports without clear differ")

    def finish(self):
        sim = self.sim
        viols = list(self.viol)
        if self.n > 1 and sim.failure is None and not viols:
            # record order == file order (tokens), checked at quiescence before the final exports ran:
            pass
        for t in sim.threads:
            if t.exc is not None:
                if isinstance(t.exc, term.TermError):
                    return {"violations": [], "faults": {}, "probes": self.probes, "nontrivial": False, "sample": None,
                            "harness_error": "TermError: %s" % t.exc}
                viols.append({"oracle": "exception", "sig": "exception:" + type(t.exc).__name__,
                              "msg": "%s died: %s" % (t.name, (t.tb or "")[-600:]), "seq": sim.seq})
        faults = {"preemptions": max(0, sim.switches - len(sim.threads)),
                  "file_write_refused": self.file.io_errors["write"], "file_flush_failed_after_write": self.file.io_errors["flush"],
                  "print_renderable_raised": self.probes.get("failed_prints", 0),
                  "capture_left_by_exception": self.probes.get("captures_left_by_exception", 0)}
        nontrivial = any(len(th) > 0 for th in self.case["threads"])
        return {"violations": viols, "faults": faults, "probes": dict(self.probes), "nontrivial": nontrivial,
                "sample": {"cfg": self.cfg, "threads": [th[:6] for th in self.case["threads"]]}}


C15.rule = ("histories drawn from VERIF_SEED over print (30% with formatting options: end, soft_wrap, justify, no_wrap/overflow, crop, width, markup)/markup/log/rule/line/out/bell/clear/show_cursor/"
            "capture (also nested in captures and buffered blocks, also left by exception)/export_text/export_html, with injected faults: prints whose renderable raises (caught by the program), "
            "output operations during which the file refuses the write, refuses the second write of the operation, or fails the flush after the write "
            "x colour system {None, standard, 256, truecolor} x terminal or not x width; 55% single-thread (exports at arbitrary points), "
            "45% 2-3 threads under a seeded schedule (exports at quiescence); non-trivial = at least one operation; distinct = distinct (case, switch-signature)")
C15.components_real = ["rich.console (record buffer, capture, export_text, export_html, control)", "rich.segment (simplify, filter_control)", "rich.style (render, get_html_style)", "renderers"]
C15.components_stub = ["file -> SimFile", "threading primitives / scheduler -> dsim", "clock -> SimClock"]
C15.assumptions = ["visible text of the file = what dsim.term's tokenizer leaves after removing escape sequences and C0 controls (newlines kept)",
                   "HTML text = <pre> body with tags removed and entities decoded (html.unescape)",
                   "styled export is compared with the file per character (attributes + link always; colours only on a truecolor console, since the export is always truecolor)",
                   "after an injected file error the program catches the OSError and goes on; whole-write granularity only (a write is taken or refused; torn writes are not injected: a text stream gives no way to learn how much was taken)",
                   "a print whose renderable raises does so before yielding anything, so the failed print has no partial output of its own"]
CHECK = C15()
