"""C12 — progress accounting is exact for any history and any interleaving.

Real code: rich.progress (Progress, Task, _TrackThread, _RefreshThread), rich.console.
Stubs: locks/events/threads/clock/file from dsim.
Oracles: sequential reference model after every operation; Wing-Gong
linearizability search for concurrent histories; sign of speed / time_remaining
on atomic snapshots; track() exactly-once.
"""
import math

from dsim import sched, seams
from dsim.seams import SimClock, SimFile

PROP = "C12"

POW = [2.0 ** k / 8.0 for k in range(0, 24)]  # distinct dyadic amounts: sums are exact


def _huge(tasks, ops):
    def big(x):
        return isinstance(x, (int, float)) and not isinstance(x, bool) and abs(x) >= 10 ** 9

    for t in tasks:
        if big(t["total"]):
            return True
    for op in ops:
        for a in op[2:]:
            if big(a) or (isinstance(a, dict) and any(big(v) for v in a.values())):
                return True
    return False


# ---------------------------------------------------------------------------
# reference model (pure; state = tuple of per-task tuples)
#   task = (total, completed, started, mustfin, negative_seen)


def m_apply(state, op):
    """Returns (new_state, expected_read_or_None)."""
    k = op[0]
    if k in ("sleep", "add"):
        return state, None
    i = op[1][1]
    total, completed, started, mustfin, neg = state[i]
    res = None
    if k == "burst":
        for _ in range(op[2]):
            completed = completed + 1
        if started and completed >= total:
            mustfin = True
    elif k == "advance":
        completed = completed + op[2]
        if op[2] < 0:
            neg = True
        if started and completed >= total:
            mustfin = True
    elif k == "update":
        a = op[2]
        if a.get("total") is not None:
            total = a["total"]
            mustfin = False
        if a.get("advance") is not None:
            completed = completed + a["advance"]
            if a["advance"] < 0:
                neg = True
        if a.get("completed") is not None:
            completed = a["completed"]
        if started and completed >= total:
            mustfin = True
    elif k == "reset":
        a = op[2]
        started = bool(a.get("start", True))
        if a.get("total") is not None:
            total = a["total"]
        completed = a.get("completed", 0)
        mustfin = False
        neg = False
    elif k == "start_task":
        started = True
    elif k == "stop_task":
        started = True
    elif k == "read":
        res = (completed, mustfin)
    new = state[:i] + ((total, completed, started, mustfin, neg),) + state[i + 1:]
    return new, res


def percentage(total, completed):
    if not total:
        return 0.0
    return min(100.0, max(0.0, (completed / total) * 100.0))


# ---------------------------------------------------------------------------


class _LoopBodyError(Exception):
    """Raised by the body of a `for ... in track(...)` loop."""


class C12:
    prop = PROP
    level = "exploration"
    line_modules = seams.TARGET_MODULES
    policy_weights = (0.45, 0.25, 0.2, 0.1)  # random walk, PCT, single pre-emption, race-directed (DESIGN 3.3)

    def opcode_modules(self, case):
        return ("rich.progress",) if case["cfg"].get("opcode", True) else ()

    # -- generation ----------------------------------------------------------
    def gen(self, rng, tier, idx):
        r = rng.random()
        kind = "seq" if r < 0.3 else ("conc" if r < 0.8 else "track")
        thorough = tier == "thorough"
        cfg = {
            "auto_refresh": rng.random() < 0.5,
            "terminal": rng.random() < 0.3,
            "width": rng.choice([20, 40, 80]),
            "height": rng.choice([5, 12, 25]),
            "refresh_per_second": rng.choice([1, 4, 10, 50]),
            "speed_estimate_period": rng.choice([0.05, 0.5, 2.0, 30.0]),
            "clock": rng.choice(["frozen", "jitter", "jitter", "faulty"]),
            "jitter": rng.choice([1e-6, 0.01, 0.3, 5.0]),
            "opcode": rng.random() < 0.8,
            "columns": rng.choice(["str", "default", "speed"]),
            # Progress(disable=True) shows nothing; the accounting must not depend on it
            "disable": rng.random() < 0.12,
        }
        if kind == "seq":
            ntask = rng.randint(1, 4)
            tasks = [self._gen_task(rng) for _ in range(ntask)]
            n = rng.randint(1, 30 if thorough else 14)
            ops = [self._gen_op(rng, ntask, seq=True) for _ in range(n)]
            if rng.random() < 0.25:
                # "sliding window" flavour: amounts that are not exactly representable (their partial
                # sums round), next to huge ones, with pauses around the speed-estimate period so that
                # samples are evicted while others stay -- whatever bookkeeping the estimate uses, with
                # non-negative advances it must never come out negative
                per = cfg["speed_estimate_period"]
                ops = []
                for _ in range(n):
                    q = rng.random()
                    ref = ["g", rng.randrange(ntask)]
                    if q < 0.55:
                        ops.append(["advance", ref, rng.choice([0.1, 0.3, 0.6, 1.1, 0.7, 1e-3, 0.25, 3, 0, 0, 5e15, 1e17])])
                    elif q < 0.65:
                        ops.append(["update", ref, {"advance": rng.choice([0.1, 0.2, 1.3, 0])}])
                    elif q < 0.9:
                        ops.append(["sleep", per * rng.choice([0.2, 0.6, 1.01, 1.5, 3.0])])
                    else:
                        ops.append(["read", ref])
                cfg["flavour"] = "window"
                # (the pauses are long in virtual time: keep the number of refresh cycles the
                # refresh thread runs meanwhile small, the step cap is not a property of rich)
                if per >= 2.0:
                    cfg["refresh_per_second"] = 1
                if per >= 30.0:
                    cfg["auto_refresh"] = False
            if rng.random() < (0.04 if thorough else 0.02):
                ops.insert(rng.randrange(len(ops) + 1), ["burst", ["g", rng.randrange(ntask)], 1100])
                cfg["opcode"] = False
            # huge totals overflow timedelta() in TimeRemainingColumn.render: a rendering
            # error outside this property (C14 territory), so such histories use string columns
            cfg["columns"] = "str" if _huge(tasks, ops) else cfg["columns"]
            return {"kind": kind, "cfg": cfg, "tasks": tasks, "threads": [ops]}
        if kind == "conc":
            ntask = rng.randint(1, 3)
            tasks = [self._gen_task(rng, conc=True) for _ in range(ntask)]
            nthreads = rng.randint(2, 8 if thorough else 4)
            budget = 16 if thorough else 12
            amounts = list(POW)
            rng.shuffle(amounts)
            threads = []
            left = budget
            for t in range(nthreads):
                n = max(1, min(left - (nthreads - t - 1), rng.randint(1, 5)))
                left -= n
                ops = []
                for _ in range(n):
                    ops.append(self._gen_op(rng, ntask, seq=False, amounts=amounts))
                threads.append(ops)
            if _huge(tasks, [op for th in threads for op in th]):
                cfg["columns"] = "str"
            return {"kind": kind, "cfg": cfg, "tasks": tasks, "threads": threads}
        # track
        cfg["terminal"] = rng.random() < 0.5
        n = rng.randint(0, 8 if thorough else 5)
        tr = {
            "n": n, "gen": rng.random() < 0.5, "update_period": rng.choice([0.001, 0.1, 1.0]),
            "sleeps": [rng.choice([0, 0, 0.05, 0.2, 2.0]) for _ in range(n)],
            "total_given": rng.random() < 0.3,
            # how the loop is written: Progress.track on a fresh task, Progress.track(task_id=) on a task
            # just added by the caller, or the module-level rich.progress.track() (which builds, starts
            # and stops a Progress of its own around Progress.track)
            "via": rng.choice(["method", "method", "task_id", "module"]),
        }
        if n and rng.random() < 0.3:
            # the loop is left early, by break or by an exception in its body, while element k is
            # being processed
            tr["leave"] = [rng.choice(["break", "raise"]), rng.randrange(n)]
        other = []
        if rng.random() < 0.5:
            other = [["sleep", rng.choice([0.01, 0.3])] if rng.random() < 0.5 else ["addx", 10] for _ in range(rng.randint(1, 3))]
        case = {"kind": kind, "cfg": cfg, "tasks": [], "track": tr, "threads": [[["track"]], other] if other else [[["track"]]]}
        if not other and rng.random() < 0.4:
            m = rng.randint(0, 4)
            case["track2"] = {"n": m, "gen": rng.random() < 0.5, "update_period": rng.choice([0.001, 0.1]),
                              "sleeps": [rng.choice([0, 0.05, 0.3]) for _ in range(m)], "total_given": rng.random() < 0.3}
            case["threads"] = [[["track"]], [["track"]]]
        return case

    def _gen_task(self, rng, conc=False):
        total = rng.choice([100, 100, 10, 1, 0, -5, 10 ** 18, 7.5, 3])
        if conc:
            total = rng.choice([100, 4, 1, 0, 1000, 2.5])
        return {"total": total, "start": rng.random() < 0.8, "completed": rng.choice([0, 0, 0, 1, 5])}

    def _gen_op(self, rng, ntask, seq, amounts=None):
        ref = ["g", rng.randrange(ntask)]
        r = rng.random()
        if seq:
            amt = lambda: rng.choice([1, 1, 2, 0.5, 0, 10, 0.125, 10 ** 17, 3.75, -1 if rng.random() < 0.15 else 1])
        else:
            amt = lambda: amounts.pop() if amounts else 0.125
        if r < 0.4:
            return ["advance", ref, amt()]
        if r < 0.6:
            a = {}
            if rng.random() < 0.4:
                a["advance"] = amt()
            elif rng.random() < 0.4:
                a["completed"] = rng.choice([0, 1, 3, 50, 100, 2.5])
            if rng.random() < 0.25:
                a["total"] = rng.choice([0, 1, 4, 100, 50.5, 10 ** 18, -3])
            if rng.random() < 0.2:
                a["visible"] = rng.random() < 0.5
            if rng.random() < 0.2:
                a["refresh"] = True
            return ["update", ref, a]
        if r < 0.68:
            a = {"start": rng.random() < 0.8}
            if rng.random() < 0.4:
                a["total"] = rng.choice([1, 4, 100, 0])
            if rng.random() < 0.4:
                a["completed"] = rng.choice([0, 1, 5, 200])
            return ["reset", ref, a]
        if r < 0.73:
            return ["start_task", ref]
        if r < 0.78:
            return ["stop_task", ref]
        if r < 0.9:
            return ["read", ref]
        if r < 0.95 and not seq:
            return ["add", rng.choice([10, 100])]
        return ["sleep", rng.choice([0.001, 0.05, 0.3, 0.6, 2.0])]

    # -- setup ---------------------------------------------------------------
    def setup(self, sim, case, env):
        from rich.console import Console
        from rich.progress import Progress, TextColumn, BarColumn, TimeRemainingColumn, TransferSpeedColumn

        cfg = case["cfg"]
        mode = cfg["clock"]
        clock = SimClock(sim, env.clock_rng, mode=mode, jitter=cfg["jitter"], p_jump=0.03, p_stall=0.08, p_tiny=0.05)
        f = SimFile(sim, tty=cfg["terminal"])
        console = Console(file=f, width=cfg["width"], height=cfg["height"], force_terminal=cfg["terminal"],
                          color_system=None, _environ={}, get_time=clock.time, get_datetime=clock.datetime)
        if cfg["columns"] == "str":
            cols = ("{task.description}", "{task.completed}/{task.total}")
        elif cfg["columns"] == "speed":
            cols = (TextColumn("{task.description}"), TransferSpeedColumn(), TimeRemainingColumn())
        else:
            cols = ()
        progress = Progress(*cols, console=console, auto_refresh=cfg["auto_refresh"],
                            refresh_per_second=cfg["refresh_per_second"],
                            speed_estimate_period=cfg["speed_estimate_period"], get_time=clock.time,
                            redirect_stdout=False, redirect_stderr=False, disable=cfg.get("disable", False))
        import rich.progress as _rp
        if getattr(_rp.Progress, "_dsim_recorder", False):  # left behind by an aborted run
            _rp.Progress = _rp.Progress.__mro__[1]
        ctx = {
            "clock": clock, "file": f, "progress": progress, "viol": [], "hist": [], "ids": [],
            "probes": {"defect_sample_timestamps_out_of_order": 0, "total_time_zero": 0, "sample_evicted": 0, "reads": 0,
                       "finished_seen": 0, "track_helper": 0, "samples_gt_1000": 0},
            "added": [], "model": None, "first_ts": {}, "ready": sched.SimEvent(), "track": None, "nthreads": len(case["threads"]),
        }
        self._lock = None
        kind = case["kind"]

        def get_lock():
            for v in vars(progress).values():
                if isinstance(v, sched.SimRLock):
                    return v
            raise sched.HarnessError("Progress has no RLock attribute")

        ctx["lock"] = get_lock()

        def viol(oracle, sig, msg):
            ctx["viol"].append({"oracle": oracle, "sig": sig, "msg": msg, "seq": sim.seq})

        def snapshot(tid):
            """Atomic read of one task under the progress lock."""
            with ctx["lock"]:
                with sim.atomic():
                    t = {x.id: x for x in progress.tasks}[tid]
                    pr = getattr(t, "_progress", None)
                    if pr is not None:
                        first = pr[0].timestamp if len(pr) else None
                        old = ctx["first_ts"].get(tid)
                        if first is not None and old is not None and first > old:
                            ctx["probes"]["sample_evicted"] += 1
                        ctx["first_ts"][tid] = first
                    if pr is not None and len(pr) >= 2:
                        ts = [s.timestamp for s in pr]
                        if any(b < a for a, b in zip(ts, ts[1:])):
                            ctx["probes"]["defect_sample_timestamps_out_of_order"] += 1
                        if ts[-1] == ts[0]:
                            ctx["probes"]["total_time_zero"] += 1
                        if len(pr) > 1000:
                            ctx["probes"]["samples_gt_1000"] += 1
                    snap = {
                        "completed": t.completed, "total": t.total, "percentage": t.percentage,
                        "finished": t.finished, "finished_time": t.finished_time, "speed": t.speed,
                        "time_remaining": t.time_remaining, "started": t.started,
                    }
            return snap

        ctx["snapshot"] = snapshot

        def check_signs(ti, snap, after_advance, neg):
            if neg:
                return
            sp = snap["speed"]
            if sp is not None and sp < 0:
                viol("speed-sign", "negative-speed", "task %d speed %r < 0 with non-negative advances" % (ti, sp))
            tr = snap["time_remaining"]
            if after_advance and snap["started"] and tr is not None and tr < 0:
                viol("eta-sign", "negative-eta", "task %d time_remaining %r < 0 right after an advance" % (ti, tr))

        def do_op(thread, k, op, state_box):
            """Perform one op on the real Progress; returns the observed result."""
            kind_ = op[0]
            inv = sim.event("inv", (thread, k, kind_))
            result = None
            if kind_ == "sleep":
                sim.sleep(op[1])
            elif kind_ == "add":
                tid_new = progress.add_task("x", total=op[1])
                ctx["added"].append(tid_new)
                result = ("id", int(tid_new))
            elif kind_ == "addx":
                progress.add_task("x", total=op[1])
            else:
                tid = ctx["ids"][op[1][1]]
                if kind_ == "burst":
                    for _ in range(op[2]):
                        progress.advance(tid, 1)
                elif kind_ == "advance":
                    progress.advance(tid, op[2])
                elif kind_ == "update":
                    progress.update(tid, **op[2])
                elif kind_ == "reset":
                    progress.reset(tid, **op[2])
                elif kind_ == "start_task":
                    progress.start_task(tid)
                elif kind_ == "stop_task":
                    progress.stop_task(tid)
                elif kind_ == "read":
                    snap = snapshot(tid)
                    ctx["probes"]["reads"] += 1
                    result = ("read", snap["completed"], snap["finished"])
                    # an atomic snapshot is consistent in itself whatever the other threads do
                    pe = percentage(snap["total"], snap["completed"])
                    if not math.isclose(snap["percentage"], pe, rel_tol=1e-9, abs_tol=1e-9):
                        viol("percentage", "percentage-mismatch", "snapshot of task %d: percentage %r, formula gives %r for %r/%r" % (
                            op[1][1], snap["percentage"], pe, snap["completed"], snap["total"]))
                    if state_box.get("signs"):
                        check_signs(op[1][1], snap, False, False)
            ret = sim.event("ret", (thread, k, kind_))
            ctx["hist"].append({"thread": thread, "k": k, "op": op, "inv": inv, "ret": ret, "result": result})
            return result

        eta_ok = [bool(t["start"]) for t in case["tasks"]]
        for th in case["threads"]:
            for op in th:
                if op[0] == "reset" and not op[2].get("start", True):
                    eta_ok[op[1][1]] = False

        def prologue():
            progress.start()
            for i, t in enumerate(case["tasks"]):
                tid = progress.add_task("t%d" % i, start=t["start"], total=t["total"], completed=t["completed"])
                ctx["ids"].append(tid)

        def seq_client():
            try:
                prologue()
                state = tuple((t["total"], t["completed"], bool(t["start"]), False, False) for t in case["tasks"])
                prev = [snapshot(tid) for tid in ctx["ids"]]
                box = {}
                for k, op in enumerate(case["threads"][0]):
                    sim.yield_point("op")
                    do_op(0, k, op, box)
                    state, _ = m_apply(state, op) if op[0] not in ("add", "addx") else (state, None)
                    for i, tid in enumerate(ctx["ids"]):
                        snap = snapshot(tid)
                        total, completed, started, mustfin, neg = state[i]
                        if snap["completed"] != completed:
                            viol("completed", "completed-mismatch", "after op %d %r: task %d completed %r, model %r" % (k, op, i, snap["completed"], completed))
                        if snap["total"] != total:
                            viol("total", "total-mismatch", "after op %d %r: task %d total %r, model %r" % (k, op, i, snap["total"], total))
                        pe = percentage(total, completed)
                        if not math.isclose(snap["percentage"], pe, rel_tol=1e-9, abs_tol=1e-9):
                            viol("percentage", "percentage-mismatch", "after op %d %r: task %d percentage %r, formula %r" % (k, op, i, snap["percentage"], pe))
                        if mustfin and not snap["finished"]:
                            viol("finished", "not-finished", "after op %d %r: task %d completed %r >= total %r but not finished" % (k, op, i, completed, total))
                        if snap["finished"]:
                            ctx["probes"]["finished_seen"] += 1
                        touched = op[0] not in ("sleep", "add", "addx") and op[1][1] == i
                        may_change = touched and (op[0] == "reset" or (op[0] == "update" and op[2].get("total") is not None))
                        ft0 = prev[i]["finished_time"]
                        if ft0 is not None and not may_change and snap["finished_time"] != ft0:
                            viol("finished-time", "finished-time-moved", "op %d %r changed task %d finished_time %r -> %r" % (k, op, i, ft0, snap["finished_time"]))
                        check_signs(i, snap, touched and op[0] in ("advance", "burst") or (touched and op[0] == "update" and op[2].get("advance") is not None), neg)
                        prev[i] = snap
                ctx["model"] = state
            finally:
                progress.stop()

        def conc_client(thread):
            def run():
                if thread == 0:
                    try:
                        prologue()
                    finally:
                        ctx["ready"].set()
                else:
                    ctx["ready"].wait()
                box = {"signs": True}  # concurrent amounts are all non-negative
                try:
                    for k, op in enumerate(case["threads"][thread]):
                        sim.yield_point("op")
                        do_op(thread, k, op, box)
                        if op[0] == "advance" or (op[0] == "update" and op[2].get("advance") is not None):
                            snap = snapshot(ctx["ids"][op[1][1]])
                            sp = snap["speed"]
                            if sp is not None and sp < 0:
                                viol("speed-sign", "negative-speed", "thread %d op %d: task speed %r < 0" % (thread, k, sp))
                            tr = snap["time_remaining"]
                            # another thread may have reset the task in between: only the sign of a
                            # snapshot taken under the lock is judged, never a stale expectation
                            # and only for tasks that are running throughout the history (started at
                            # creation, never reset to un-started): an advance of an un-started task
                            # cannot mark it finished, so completed > total with a later start is a
                            # legal state in which the estimate is negative (statement: "of a task
                            # that is running whenever it advances")
                            if eta_ok[op[1][1]] and snap["started"] and tr is not None and tr < 0:
                                viol("eta-sign", "negative-eta", "thread %d op %d: time_remaining %r < 0" % (thread, k, tr))
                finally:
                    ctx["done_count"] = ctx.get("done_count", 0) + 1
                    if ctx["done_count"] == ctx["nthreads"]:
                        ctx["final"] = [snapshot(tid) for tid in ctx["ids"]]
                        ctx["final_tasks"] = len(progress.tasks)
                        progress.stop()
            return run

        def track_client(tr=None, desc="trk", owner=True):
            tr = tr or case["track"]
            n = tr["n"]
            items = ["%s%d" % (desc, i) for i in range(n)]

            def genf():
                for x in items:
                    yield x

            got = []
            try:
                via = tr.get("via", "method") if owner else "method"
                if owner and via != "module":
                    progress.start()
                src = genf() if tr["gen"] else items
                total = n if (tr["gen"] or tr["total_given"]) else None
                mine = progress
                if via == "module":
                    import rich.progress as rp

                    made = []

                    class Recorder(rp.Progress):
                        _dsim_recorder = True

                        def __init__(self, *a, **kw):
                            super().__init__(*a, **kw)
                            made.append(self)

                    rp.Progress = Recorder
                    it = rp.track(src, description=desc, total=total, auto_refresh=cfg["auto_refresh"], console=console,
                                  get_time=clock.time, refresh_per_second=cfg["refresh_per_second"],
                                  update_period=tr["update_period"], disable=cfg.get("disable", False))
                elif via == "task_id":
                    fresh = progress.add_task(desc, total=100)
                    it = progress.track(src, total=total, task_id=fresh, update_period=tr["update_period"])
                else:
                    it = progress.track(src, total=total, update_period=tr["update_period"], description=desc)
                j = 0
                leave = tr.get("leave")
                try:
                    for v in it:
                        got.append(v)
                        if tr["sleeps"][j]:
                            sim.sleep(tr["sleeps"][j])
                        if leave and j == leave[1]:
                            ctx["probes"]["track_left_early"] = ctx["probes"].get("track_left_early", 0) + 1
                            if leave[0] == "break":
                                break
                            raise _LoopBodyError()
                        j += 1
                except _LoopBodyError:
                    pass
                if leave:
                    it.close()  # what leaving the for statement does once the generator is dropped
                    items = items[:leave[1] + 1]
                if via == "module":
                    rp.Progress = Recorder.__mro__[1]
                    if len(made) != 1:
                        if n or made:
                            viol("track-task", "track-task", "module-level track() built %d Progress objects" % len(made))
                        mine = None
                    else:
                        mine = made[0]
                tasks = mine.tasks if mine is not None else []
                if mine is None and not n:
                    return
                trk = [t for t in tasks if t.description == desc]
                if got != items:
                    viol("track-yield", "track-yield", "track yielded %r for input %r" % (got, items))
                if len(trk) != 1:
                    viol("track-task", "track-task", "expected one tracked task, found %d" % len(trk))
                elif leave:
                    # the element in flight when the loop was left is un-acknowledged: it may or
                    # may not count; every element before it was yielded and finished
                    if not (len(got) - 1 <= trk[0].completed <= len(got)):
                        viol("track-count", "track-count", "tracked task completed %r after the loop was left (%s) while processing element %d of %d yielded" % (
                            trk[0].completed, leave[0], len(got), len(got)))
                elif trk[0].completed != len(got):
                    viol("track-count", "track-count", "tracked task completed %r after yielding %d elements" % (trk[0].completed, len(got)))
                helpers = [t for t in sim.threads if t.name == "_TrackThread"]
                ctx["probes"]["track_helper"] += len(helpers)
                if "track2" not in case:
                    for h in helpers:
                        if h.state != sched.DONE:
                            viol("track-helper", "track-helper-alive", "_TrackThread still running after track() was exhausted")
            finally:
                if owner:
                    progress.stop()
                import rich.progress as rp2
                if owner and getattr(rp2.Progress, "_dsim_recorder", False):
                    rp2.Progress = rp2.Progress.__mro__[1]

        def other_client():
            for k, op in enumerate(case["threads"][1]):
                sim.yield_point("op")
                if op[0] == "sleep":
                    sim.sleep(op[1])
                else:
                    progress.add_task("x", total=op[1])

        if kind == "seq":
            sim.spawn(seq_client, "c0")
        elif kind == "conc":
            for t in range(len(case["threads"])):
                sim.spawn(conc_client(t), "c%d" % t)
        else:
            sim.spawn(track_client, "c0")
            if "track2" in case:
                # a second thread tracks its own sequence on the same Progress at the same time
                sim.spawn(lambda: track_client(case["track2"], "trb", False), "c1")
            elif len(case["threads"]) > 1:
                sim.spawn(other_client, "c1")
        return ctx

    # -- finish --------------------------------------------------------------
    def finish(self, sim, case, ctx):
        viols = list(ctx["viol"])
        for t in sim.threads:
            if t.exc is not None:
                viols.append({"oracle": "exception", "sig": "exception:" + type(t.exc).__name__,
                              "msg": "thread %s died: %s" % (t.name, (t.tb or "")[-600:]), "seq": sim.seq})
        for t in sim.threads:
            if t.kind == "helper" and t.state != sched.DONE and sim.failure is None:
                viols.append({"oracle": "helper", "sig": "helper-alive", "msg": "%s not finished" % t.name, "seq": sim.seq})
        if case["kind"] == "conc" and sim.failure is None and "final" in ctx:
            v = self.linearizable(case, ctx)
            if v:
                viols.append(v)
        clock = ctx["clock"]
        faults = {k: v for k, v in clock.fired.items() if k != "clock_reads"}
        faults["timer_fired_by_choice"] = sim.stats["timer_fired_by_choice"]
        faults["track_loop_left_early"] = ctx["probes"].get("track_left_early", 0)
        probes = dict(ctx["probes"])
        probes["lock_contended"] = sim.stats["lock_contended"]
        probes["clock_reads"] = clock.fired["clock_reads"]
        nontrivial = sim.switches > 1 and len(ctx["hist"]) > 0 or case["kind"] != "conc" and len(case["threads"][0]) > 0
        return {"violations": viols, "faults": faults, "probes": probes, "nontrivial": bool(nontrivial),
                "sample": {"kind": case["kind"], "threads": case["threads"], "tasks": case["tasks"]}}

    def linearizable(self, case, ctx):
        """Wing & Gong search: is there an order consistent with real time in which the
        model returns every observed read and the final state?"""
        hist = [h for h in ctx["hist"] if h["op"][0] not in ("sleep",)]
        adds = [h for h in hist if h["op"][0] == "add"]
        ids = [h["result"][1] for h in adds] + [int(x) for x in ctx["ids"]]
        if len(set(ids)) != len(ids):
            return {"oracle": "add-task", "sig": "duplicate-task-id", "msg": "task ids not unique: %r" % ids, "seq": 0}
        if ctx["final_tasks"] != len(ids):
            return {"oracle": "add-task", "sig": "lost-task", "msg": "%d tasks exist, %d were added" % (ctx["final_tasks"], len(ids)), "seq": 0}
        ops = [h for h in hist if h["op"][0] != "add"]
        n = len(ops)
        if n > 18:
            return None
        init = tuple((t["total"], t["completed"], bool(t["start"]), False, False) for t in case["tasks"])
        final = ctx["final"]
        seen = set()
        full = (1 << n) - 1

        def final_ok(state):
            for i, snap in enumerate(final):
                total, completed, started, mustfin, neg = state[i]
                if snap["completed"] != completed or snap["total"] != total:
                    return False
                if mustfin and not snap["finished"]:
                    return False
            return True

        def search(done, state):
            if done == full:
                return final_ok(state)
            key = (done, state)
            if key in seen:
                return False
            seen.add(key)
            # minimal ops: not done, and no other not-done op returned before its invocation
            min_ret = min(ops[j]["ret"] for j in range(n) if not done >> j & 1)
            for j in range(n):
                if done >> j & 1:
                    continue
                h = ops[j]
                if h["inv"] > min_ret:
                    continue
                ns, exp = m_apply(state, h["op"])
                if h["op"][0] == "read":
                    _, comp, fin = h["result"]
                    if comp != exp[0] or (exp[1] and not fin):
                        continue
                if search(done | 1 << j, ns):
                    return True
            return False

        if search(0, init):
            return None
        desc = [(h["thread"], h["k"], h["op"], h["inv"], h["ret"], h["result"]) for h in ops]
        return {"oracle": "linearizability", "sig": "not-linearizable",
                "msg": "no linearization explains reads/final state %r of history %r" % (
                    [(s["completed"], s["total"], s["finished"]) for s in final], desc), "seq": 0}

    # -- shrinking -----------------------------------------------------------
    def shrink(self, case):
        import copy

        th = case["threads"]
        if case["kind"] == "track":
            tr = case["track"]
            if tr["n"] > 0:
                c = copy.deepcopy(case)
                c["track"]["n"] -= 1
                c["track"]["sleeps"] = c["track"]["sleeps"][:-1]
                yield c
            if len(th) > 1:
                c = copy.deepcopy(case)
                c["threads"] = th[:1]
                c.pop("track2", None)
                yield c
            return
        if len(th) > 1:
            for i in range(len(th) - 1, 0, -1):
                c = copy.deepcopy(case)
                del c["threads"][i]
                yield c
        for i in range(len(th)):
            for j in range(len(th[i]) - 1, -1, -1):
                c = copy.deepcopy(case)
                del c["threads"][i][j]
                yield c
        for key, val in (("auto_refresh", False), ("terminal", False), ("clock", "jitter")):
            if case["cfg"].get(key) != val and not (key == "clock" and case["cfg"]["clock"] == "frozen"):
                c = copy.deepcopy(case)
                c["cfg"][key] = val
                yield c


C12.rule = ("cases drawn from VERIF_SEED: sequential histories (<=14/30 ops, 1-4 tasks; a quarter with non-representable and huge amounts around a sliding sample window), concurrent histories "
            "(2-4/8 threads, <=12/16 ops, distinct dyadic amounts) and track() runs, each under one seeded schedule "
            "(random walk / PCT / single pre-emption); a run is non-trivial when at least one context switch happened "
            "between operations of a concurrent history, or a sequential/track history has >=1 operation; distinct = "
            "distinct (case, switch-signature) pairs")
C12.components_real = ["rich.progress (Progress, Task, _TrackThread, _RefreshThread, columns)", "rich.console", "rich.live_render",
                       "rich.table/text/segment/style (rendering)"]
C12.components_stub = ["threading.RLock/Event -> dsim SimRLock/SimEvent", "Thread.start/join -> scheduler registration",
                       "OS scheduler -> seeded baton passing at sys.monitoring LINE/INSTRUCTION events",
                       "clock -> SimClock via Progress(get_time=)/Console(get_time=)", "terminal/file -> SimFile",
                       "threading.excepthook (thread deaths recorded by the scheduler)"]
C12.assumptions = ["pre-emption happens at line boundaries of console/live/live_render/progress/status/file_proxy/theme and at bytecode boundaries of progress.py (80% of runs); other rich modules run atomically (they share only memo caches)",
                   "CPython 3.12 GIL semantics; free-threaded builds not simulated",
                   "clock readings are monotone (the property quantifies over monotone clocks)",
                   "sampled schedules, not exhaustive: a clean batch is evidence, not proof"]
CHECK = C12()
