"""C19 — the ANSI decoder inverts the encoder, and redirected output is never lost.

Kinds of case:
  rt     direct round trip: styled pieces -> rich's truecolor encoder -> AnsiDecoder -> per
         character the same attributes, colours and link (no threads; the fault-free baseline
         of the decoder that the proxy runs depend on).
  proxy  a Live/Progress display with redirect_stdout/err on a simulated terminal, its refresh
         thread under the scheduler, and a writer client that writes a stream of styled lines to
         sys.stdout / sys.stderr torn at seeded positions (inside lines, inside CSI/OSC sequences,
         empty writes, many newlines per write) with flushes and sleeps in between.  Oracle: the
         C10 screen oracle where each completed line must appear once, in completion order, and
         per cell with the attributes/colours/link the same terminal model assigns to the input
         stream fed to it directly (differential: model(input) vs model(console output)).
Real code: rich.ansi, rich.file_proxy, rich.live, rich.progress, rich.console, rich.style, rich.color.
"""
import copy
import json
import re
import sys

from dsim import sched, seams, term
from dsim.display import DisplayOracle, SpanTracker, nonblank
from dsim.programs import FAULTS, InjectedFault, InjectedInterrupt, Pristine, build
from dsim.seams import SimClock, SimFile, scrub_links

PROP = "C19"
ATTRS = ["bold", "dim", "italic", "underline", "blink", "blink2", "reverse", "conceal", "strike", "underline2", "frame", "encircle", "overline"]
WORDS = ["alpha", "be ta", "x", "[b]", "]", "\\", "a:b", ":smiley:", "漢字", "é", "😀", "1+1=2", "'q'", "<t>", "[/]", "True", "0x1f"]
SAFE_SGR = [0, 1, 2, 3, 4, 5, 7, 8, 9, 22, 23, 24, 25, 27, 28, 29, 39, 49] + list(range(30, 38)) + list(range(40, 48)) + list(range(90, 98)) + list(range(100, 108))


def gen_style(rng):
    parts = []
    for a in ATTRS:
        if rng.random() < 0.12:
            parts.append(a)
    for prefix in ("", "on "):
        r = rng.random()
        if r < 0.15:
            parts.append(prefix + rng.choice(["red", "green", "bright_blue", "black", "white", "bright_white", "default"]))
        elif r < 0.28:
            parts.append(prefix + "color(%d)" % rng.randrange(256))
        elif r < 0.4:
            parts.append(prefix + "#%02x%02x%02x" % (rng.randrange(256), rng.randrange(256), rng.randrange(256)))
    if rng.random() < 0.12:
        # URLs with everything a URL may legally carry (the OSC 8 payload is `params;URI`: the
        # URI itself may contain ';', ':', '=', '#', ',' ...)
        parts.append("link " + rng.choice([
            "https://example.org/p%d?a=1&b=2", "https://example.org/app/login;jsessionid=%dA?next=/home",
            "https://user@example.org:8080/x,y/%d#frag", "file:///tmp/a=b;c=%d", "https://e.x/%d"]) % rng.randrange(100))
    return " ".join(parts)


def gen_base(rng):
    st = gen_style(rng)
    if rng.random() < 0.4:
        st = (st + " " + rng.choice(["not bold", "not italic", "not underline", "bold", "red", "on blue", "link https://base.example/x"])).strip()
    return st


def combine_keys(base, span):
    """Right-biased combination of two style strings, as (true attrs, fg codes, bg codes, link):
    the span wins wherever it says something."""
    from rich.style import Style

    b, s = Style.parse(base) if base else Style.null(), Style.parse(span) if span else Style.null()
    attrs = []
    for a in ATTRS:
        v = getattr(s, a)
        if v is None:
            v = getattr(b, a)
        if v:
            attrs.append(a)

    def ck(c):
        return None if c is None or c.is_default else tuple(c.get_ansi_codes())

    fg = s.color if s.color is not None else b.color
    bg = s.bgcolor if s.bgcolor is not None else b.bgcolor
    link = s.link if s.link is not None else b.link
    bgk = ck(bg)
    if bgk is not None:
        from rich.color import Color

        bgk = tuple(bg.get_ansi_codes(foreground=False))
    return (tuple(attrs), ck(fg), bgk, link)


def combine_list(styles):
    """Right-biased combination of any number of style strings, in order."""
    from rich.style import Style

    attrs = {}
    fg = bg = link = None
    for d in styles:
        if not d:
            continue
        st = Style.parse(d)
        for a in ATTRS:
            v = getattr(st, a)
            if v is not None:
                attrs[a] = v
        fg = st.color if st.color is not None else fg
        bg = st.bgcolor if st.bgcolor is not None else bg
        link = st.link if st.link is not None else link

    def ck(c, foreground=True):
        return None if c is None or c.is_default else tuple(c.get_ansi_codes(foreground=foreground))

    return (tuple(a for a in ATTRS if attrs.get(a)), ck(fg), ck(bg, False), link)


# control codes rich removes from any text it prints (rich.control.strip_control_codes: BEL, BS, VT,
# FF, CR).  BS / VT / FF occur in real redirected output (nroff-style overstrike, form feeds); a line
# that carries them must come out without them and otherwise unchanged -- characters and styling.
# (CR stays excluded: rich defines it as "overwrite"; BEL is a legal OSC terminator.)
CTL = "\x08\x0b\x0c"
STRIP = {ord(c): None for c in CTL}


def with_ctl(rng, w, p=0.05):
    if rng.random() < p:
        k = rng.randrange(len(w) + 1)
        return w[:k] + rng.choice(CTL) + w[k:]
    return w


def gen_line(rng, token, width, ctl=True):
    """A styled line: list of [text, style]; total cell width <= width."""
    pieces = [[token, gen_style(rng) if rng.random() < 0.5 else ""]]
    used = term.text_width(token)
    for _ in range(rng.randint(0, 4)):
        w = rng.choice(WORDS)
        sep = rng.choice([" ", " ", "", "  "])
        if used + term.text_width(sep + w) > width:
            break
        pieces.append([sep + (with_ctl(rng, w) if ctl else w), gen_style(rng) if rng.random() < 0.6 else ""])
        used += term.text_width(sep + w)
    return pieces


def gen_sgr_line(rng, token, width):
    """Hand-written SGR line: list of ['t', text] | ['s', [codes]]; styling carries across lines."""
    out = [["t", token]]
    used = term.text_width(token)
    for _ in range(rng.randint(0, 4)):
        if rng.random() < 0.7:
            codes = []
            for _ in range(rng.randint(1, 3)):
                r = rng.random()
                if r < 0.7:
                    codes.append(rng.choice(SAFE_SGR))
                elif r < 0.85:
                    codes.extend([rng.choice([38, 48]), 5, rng.randrange(256)])
                else:
                    codes.extend([rng.choice([38, 48]), 2, rng.randrange(256), rng.randrange(256), rng.randrange(256)])
            out.append(["s", codes])
        if rng.random() < 0.15:
            # a hand-written hyperlink: opened and closed by separate OSC 8 sequences, possibly
            # lines apart ("" closes); like the SGR state it carries across lines
            out.append(["l", rng.choice(["", "", "https://e.x/%d" % rng.randrange(9), "file:///tmp/a=b;c=%d" % rng.randrange(9)]),
                        rng.choice(["", "", "id=%d" % rng.randrange(9)])])
        w = " " + rng.choice(WORDS)
        if used + term.text_width(w) > width:
            break
        out.append(["t", with_ctl(rng, w)])
        used += term.text_width(w)
    return out


def encode_pieces(pieces):
    """rich's own encoder: Style.render in truecolor."""
    from rich.style import Style

    out = []
    for text, st in pieces:
        out.append(Style.parse(st).render(text) if st else text)
    return scrub_links("".join(out)).replace("id=X;", "id=7;")


def encode_sgr(items):
    out = []
    for item in items:
        kind, v = item[0], item[1]
        if kind == "l":
            out.append("\x1b]8;%s;%s\x1b\\" % (item[2] if v else "", v))
        else:
            out.append(v if kind == "t" else "\x1b[%sm" % ";".join(map(str, v)))
    return "".join(out)


def style_key(st):
    """(true attributes, color, bgcolor, link) of a rich Style."""
    attrs = tuple(a for a in ATTRS if getattr(st, a))
    def ck(c, fg=True):
        # a colour is identified by what the encoder would write for it: (38, 5, 16) and the
        # invalid "standard colour 16" (which would be written as SGR 98) are different colours
        if c is None or c.is_default:
            return None
        return tuple(c.get_ansi_codes(foreground=fg))
    return (attrs, ck(st.color), ck(st.bgcolor, False), st.link)


class C19:
    prop = PROP
    level = "exploration"
    line_modules = seams.TARGET_MODULES
    policy_weights = (0.5, 0.3, 0.2)

    def opcode_modules(self, case):
        return ("rich.live", "rich.progress", "rich.file_proxy") if case["cfg"].get("opcode") else ()

    def policy(self, case, rng):
        from dsim import harness

        if case["kind"] == "mw":
            return harness.draw_policy(rng, self.policy_weights)
        if case["kind"] == "rt" or not case["cfg"]["auto_refresh"]:
            return {"kind": "none"}
        return harness.draw_policy(rng, self.policy_weights)

    def gen(self, rng, tier, idx):
        thorough = tier == "thorough"
        if rng.random() < 0.25:
            texts = [gen_line(rng, "R%dz" % i, 200) for i in range(rng.randint(1, 12))]
            # half of the texts also get a base style (spans win over it where both speak) and are
            # printed through a truecolor console rather than encoded piece by piece
            bases = [gen_base(rng) if rng.random() < 0.5 else None for _ in texts]
            # ... and a third of those are then styled further with Text.stylize() over arbitrary
            # ranges, in arbitrary order (a later call wins where two speak, whatever the offsets)
            overlays = []
            for t, b in zip(texts, bases):
                ov = []
                n = len("".join(x for x, _ in t).translate(STRIP))
                if b is not None and n >= 2 and rng.random() < 0.35:
                    for _ in range(rng.randint(1, 3)):
                        a = rng.randrange(0, n - 1)
                        ov.append([gen_style(rng) or "bold", a, rng.randint(a + 1, n)])
                overlays.append(ov)
            return {"kind": "rt", "cfg": {"auto_refresh": False}, "texts": texts, "bases": bases, "overlays": overlays}
        if rng.random() < 0.12:
            return self._gen_pf(rng)
        if rng.random() < 0.12:
            return self._gen_mw(rng)
        W = rng.choice([24, 40, 60])
        cfg = {"width": W, "height": rng.choice([6, 10]), "display": rng.choice(["live", "progress"]),
               "auto_refresh": rng.random() < 0.4, "rps": rng.choice([4, 20]), "transient": rng.random() < 0.3,
               "family": rng.choice(["enc", "enc", "sgr"]), "opcode": rng.random() < 0.3}
        nlines = rng.randint(1, 14 if thorough else 7)
        chans = {"o": [], "e": []}
        order = []
        # some encoder-made streams also carry lines wider than the console (rich word-wraps them;
        # expected rows then come from a pristine print of the same styled pieces); such streams
        # are not flushed in mid-line
        wide_ok = cfg["family"] == "enc" and rng.random() < 0.3
        wide = {}
        for i in range(nlines):
            ch = "o" if rng.random() < 0.7 else "e"
            tok = "L%s%dz" % (ch, i)
            if rng.random() < 0.08:
                line = []  # an empty line
            elif wide_ok and rng.random() < 0.4:
                line = gen_line(rng, tok, int(W * 2.5), ctl=False)
                if rng.random() < 0.4:
                    # one unbroken word wider than the console (rich folds it), made of
                    # double-width or ASCII characters, with short words after it
                    n = W // 2 + rng.randint(1, 8) if rng.random() < 0.6 else W + rng.randint(1, 8)
                    alphabet = "面对模棱两可的想法漢字" if n <= W // 2 + 8 else "abcdefghij"
                    line = line[:2] + [[" " + "".join(rng.choice(alphabet) for _ in range(n)), gen_style(rng) if rng.random() < 0.5 else ""]]
                    for _ in range(rng.randint(1, 3)):
                        line.append([" " + rng.choice(["ab", "cd", "x", "漢字", "ef gh"]), gen_style(rng) if rng.random() < 0.4 else ""])
                while term.text_width("".join(t for t, _ in line)) <= W:
                    line.append([" " + rng.choice(WORDS) + " " + rng.choice(WORDS), gen_style(rng) if rng.random() < 0.5 else ""])
                if rng.random() < 0.5:
                    # runs of blanks *inside* a styled piece, right where the console will wrap, followed
                    # by text in another style: wrapping drops blanks, it must not move anyone's styling
                    cut = 0
                    for j, (t, _) in enumerate(line):
                        cut += term.text_width(t)
                        if cut >= W - 6:
                            pad = " " * max(1, W - cut + rng.randint(0, 3))
                            line[j] = [t + pad, gen_style(rng) or "red"]
                            line.insert(j + 1, [rng.choice(["ccc", "dd ee", "漢字 x"]), rng.choice(["", "", "bold blue"])])
                            break
                wide[tok] = line
            elif cfg["family"] == "enc":
                line = gen_line(rng, tok, W)
            else:
                line = gen_sgr_line(rng, tok, W)
            chans[ch].append(line)
            order.append(ch)
        # tear each channel's stream; interleave the channels' chunks in a seeded order
        events = []
        streams = {}
        for ch in "oe":
            enc = [self._encode(cfg, ln) for ln in chans[ch]]
            s = "".join(e + "\n" for e in enc)
            streams[ch] = s
        # some streams end in a partial line (no newline, no flush): it must come out, as a line
        # of its own, before the display takes its last frame
        tails = {}
        for ch in "oe":
            if not wide and rng.random() < 0.3:
                tails[ch] = "T%s9z tail %s" % (ch, rng.choice(WORDS[:3]))
                streams[ch] += tails[ch]
        cuts = {}
        # swarm: tear density from "the whole stream in one write" to "every few characters"
        density = rng.choice([0, 40, 12, 12, 4])
        for ch in "oe":
            s = streams[ch]
            pts = set()
            n = len(s)
            for _ in range(rng.randint(0, max(1, n // density)) if density else 0):
                pts.add(rng.randrange(n + 1) if n else 0)
            # bias: cut right inside escape sequences
            for i, c in enumerate(s):
                if density and c == "\x1b" and rng.random() < 0.3:
                    pts.add(min(n, i + rng.randint(1, 6)))
            cuts[ch] = sorted(p for p in pts if 0 < p < n)
        chunks = {ch: [] for ch in "oe"}
        for ch in "oe":
            prev = 0
            for p in cuts[ch] + [len(streams[ch])]:
                if p > prev:
                    chunks[ch].append(streams[ch][prev:p])
                    prev = p
        pos = {"o": 0, "e": 0}
        while pos["o"] < len(chunks["o"]) or pos["e"] < len(chunks["e"]):
            avail = [ch for ch in "oe" if pos[ch] < len(chunks[ch])]
            ch = rng.choice(avail)
            if rng.random() < 0.12:
                # the bulk form: stream.writelines([piece, piece, ...]) -- the pieces are consecutive
                # chunks of the torn stream (they need not be lines)
                k = min(rng.randint(1, 3), len(chunks[ch]) - pos[ch])
                events.append(["wl", ch, chunks[ch][pos[ch]:pos[ch] + k]])
                pos[ch] += k
            else:
                events.append(["w", ch, chunks[ch][pos[ch]]])
                pos[ch] += 1
            r = rng.random()
            if r < 0.08:
                events.append(["w", ch, ""])
            elif r < 0.2 and not wide:
                events.append(["flush", rng.choice("oe")])
            elif r < 0.3:
                events.append(["sleep", rng.choice([0.01, 0.1, 0.4])])
            elif r < 0.36:
                events.append(["refresh"])
        if rng.random() < 0.5:
            events.append(["flush", "o"])
        return {"kind": "proxy", "cfg": cfg, "events": events, "wide": wide}

    def _gen_pf(self, rng):
        """A FileProxy whose console fails some of the prints the proxy issues (a render hook that
        raises on demand): a failed write may lose the lines it completed, nothing else."""
        n = rng.randint(2, 8)
        lines = []
        for i in range(n):
            if rng.random() < 0.1:
                lines.append("")
            else:
                lines.append("Q%dz %s" % (i, " ".join(rng.choice(WORDS[:3] + ["third", "x y"]) for _ in range(rng.randint(0, 3)))))
        s = "".join(ln + "\n" for ln in lines)
        if rng.random() < 0.4:
            s += "Q99z tail"
        npts = rng.randint(0, max(1, len(s) // 6))
        pts = sorted(set(rng.randrange(1, len(s)) for _ in range(npts))) if len(s) > 1 else []
        events = []
        prev = 0
        for p_ in pts + [len(s)]:
            chunk = s[prev:p_]
            prev = p_
            if not chunk:
                continue
            fault = None
            if "\n" in chunk and rng.random() < 0.3:
                fault = rng.choice(["exc", "base"])
            events.append(["w", "o", chunk, fault])
            if rng.random() < 0.1:
                events.append(["flush", "o"])
        events.append(["flush", "o"])
        return {"kind": "pf", "cfg": {"auto_refresh": False}, "events": events}

    def _gen_mw(self, rng):
        """Several threads write to the same redirected stream at once, as worker threads that
        print() do.  Every write() is one or more *whole* unstyled lines (no partial line is ever
        pending, no SGR state to carry), so whatever the interleaving each line must come out once,
        whole, and in its writer's order."""
        threads = []
        for t in range(rng.randint(2, 3)):
            writes = []
            k = 0
            for _ in range(rng.randint(1, 4)):
                lines = []
                for _ in range(rng.choice([1, 1, 1, 2, 3])):
                    lines.append("M%d_%dz %s" % (t, k, " ".join(rng.choice(WORDS[:3] + ["third", "x y", "[b]"]) for _ in range(rng.randint(0, 2)))))
                    k += 1
                writes.append("".join(ln.rstrip() + "\n" for ln in lines))
            threads.append(writes)
        return {"kind": "mw", "cfg": {"auto_refresh": False, "opcode": rng.random() < 0.5, "live": rng.random() < 0.5,
                                      "chan": rng.choice(["o", "o", "e", "both"])}, "threads": threads}

    def _encode(self, cfg, line):
        if not line:
            return ""
        seams.import_rich()
        return encode_pieces(line) if cfg["family"] == "enc" else encode_sgr(line)

    def setup(self, sim, case, env):
        if case["kind"] == "rt":
            return RoundTrip(sim, case, env)
        if case["kind"] == "pf":
            return ProxyFault(sim, case, env)
        if case["kind"] == "mw":
            return MultiWriter(sim, case, env)
        return Proxy(sim, case, env)

    def finish(self, sim, case, prog):
        return prog.finish()

    def shrink(self, case):
        if case["kind"] == "mw":
            th = case["threads"]
            for i in range(len(th) - 1, -1, -1):
                if len(th) > 2:
                    c = copy.deepcopy(case)
                    del c["threads"][i]
                    yield c
                for j in range(len(th[i]) - 1, -1, -1):
                    if len(th[i]) > 1:
                        c = copy.deepcopy(case)
                        del c["threads"][i][j]
                        yield c
            for key, val in (("opcode", False), ("live", False), ("chan", "o")):
                if case["cfg"].get(key) != val:
                    c = copy.deepcopy(case)
                    c["cfg"][key] = val
                    yield c
            return
        if case["kind"] == "rt":
            for i in range(len(case["texts"]) - 1, -1, -1):
                c = copy.deepcopy(case)
                del c["texts"][i]
                if c.get("bases"):
                    del c["bases"][i]
                if c.get("overlays"):
                    del c["overlays"][i]
                yield c
            for i, ov in enumerate(case.get("overlays") or []):
                for j in range(len(ov) - 1, -1, -1):
                    c = copy.deepcopy(case)
                    del c["overlays"][i][j]
                    yield c
            for i, b in enumerate(case.get("bases") or []):
                if b:
                    parts = b.split(" ")
                    for k in range(len(parts)):
                        if parts[k] in ("on", "link", "not") or (k > 0 and parts[k - 1] in ("on", "link", "not")):
                            continue
                        c = copy.deepcopy(case)
                        c["bases"][i] = " ".join(parts[:k] + parts[k + 1:]) or None
                        yield c
            for i, t in enumerate(case["texts"]):
                for j in range(len(t) - 1, -1, -1):
                    if len(t) > 1:
                        c = copy.deepcopy(case)
                        del c["texts"][i][j]
                        yield c
                for j, (tx, st) in enumerate(t):
                    parts = st.split(" ") if st else []
                    if len(parts) > 1:
                        for k in range(len(parts)):
                            if parts[k] in ("on", "link") or (k > 0 and parts[k - 1] in ("on", "link")):
                                continue
                            c = copy.deepcopy(case)
                            c["texts"][i][j][1] = " ".join(parts[:k] + parts[k + 1:])
                            yield c
            return
        ev = case["events"]
        for i in range(len(ev) - 1, -1, -1):
            if ev[i][0] != "w" or ev[i][2] == "":
                c = copy.deepcopy(case)
                del c["events"][i]
                yield c
        # merge neighbouring writes of one channel (fewer tears)
        for i in range(len(ev) - 1):
            if ev[i][0] == "w":
                for j in range(i + 1, len(ev)):
                    if ev[j][0] == "w" and ev[j][1] == ev[i][1]:
                        c = copy.deepcopy(case)
                        c["events"][i][2] = ev[i][2] + ev[j][2]
                        del c["events"][j]
                        yield c
                        break
        # drop a whole line (a write that is exactly one complete line)
        for i in range(len(ev) - 1, -1, -1):
            if ev[i][0] == "w" and ev[i][2].endswith("\n") and ev[i][2].count("\n") == 1:
                before = "".join(e[2] for e in ev[:i] if e[0] == "w" and e[1] == ev[i][1])
                if before == "" or before.endswith("\n"):
                    c = copy.deepcopy(case)
                    del c["events"][i]
                    yield c
        for key, val in (("auto_refresh", False), ("opcode", False), ("transient", False)):
            if case["cfg"].get(key) != val:
                c = copy.deepcopy(case)
                c["cfg"][key] = val
                yield c


class RoundTrip:
    def __init__(self, sim, case, env):
        self.sim = sim
        self.case = case
        self.viol = []
        self.n = 0
        self.with_base = 0
        sim.spawn(self.body, "c0")

    def body(self):
        from rich.ansi import AnsiDecoder
        from rich.style import Style

        with self.sim.atomic():
            dec = AnsiDecoder()
            bases = self.case.get("bases") or [None] * len(self.case["texts"])
            overlays = self.case.get("overlays") or [[] for _ in self.case["texts"]]
            for pieces, base, ovs in zip(self.case["texts"], bases, overlays):
                if base is None:
                    enc = encode_pieces(pieces)
                else:
                    import io as _io
                    from rich.console import Console as _Console
                    from rich.text import Text as _Text

                    tx = _Text(style=base, end="")
                    for t, st in pieces:
                        tx.append(t, style=st or None)
                    for st, a, b in ovs:
                        tx.stylize(st, a, b)
                    if ovs:
                        self.with_overlays = getattr(self, "with_overlays", 0) + 1
                    pc = _Console(file=_io.StringIO(), width=10000, force_terminal=True, color_system="truecolor", _environ={})
                    pc.print(tx, end="")
                    enc = scrub_links(pc.file.getvalue())
                    self.with_base += 1
                text = dec.decode_line(enc)
                want_plain = "".join(t for t, _ in pieces).translate(STRIP)
                if text.plain != want_plain:
                    self._v("round-trip", "roundtrip-text", "decoded %r, encoded %r" % (text.plain, want_plain))
                    return
                # per character expected style key
                exp = []
                for t, st in pieces:
                    if base is None:
                        k = style_key(Style.parse(st)) if st else ((), None, None, None)
                    else:
                        k = combine_keys(base, st)
                    if base is not None and ovs:
                        for _ in t.translate(STRIP):
                            i = len(exp)
                            exp.append(combine_list([base, st] + [o[0] for o in ovs if o[1] <= i < o[2]]))
                        continue
                    exp.extend([k] * len(t.translate(STRIP)))
                from rich.console import Console

                con = Console(width=10000, _environ={}, file=None, force_terminal=False)
                for i in range(len(want_plain)):
                    got = style_key(text.get_style_at_offset(con, i))
                    self.n += 1
                    if got != exp[i]:
                        self._v("round-trip", "roundtrip-style", "char %d %r of %r: decoded style %r, printed with %r (stream %r)" % (
                            i, want_plain[i], want_plain, got, exp[i], enc))
                        return

    def _v(self, oracle, sig, msg):
        if not self.viol:
            self.viol.append({"oracle": oracle, "sig": sig, "msg": msg, "seq": self.sim.seq})

    def finish(self):
        v = list(self.viol)
        for t in self.sim.threads:
            if t.exc is not None:
                v.append({"oracle": "exception", "sig": "exception:" + type(t.exc).__name__, "msg": (t.tb or "")[-600:], "seq": 0})
        return {"violations": v, "faults": {}, "probes": {"roundtrip_chars": self.n, "roundtrip_texts": len(self.case["texts"]), "roundtrip_printed_with_base_style": self.with_base,
                                                                       "roundtrip_with_stylize_overlays": getattr(self, "with_overlays", 0)},
                "nontrivial": len(self.case["texts"]) > 0, "sample": {"kind": "rt", "texts": self.case["texts"][:2]}}


class ProxyFault:
    """FileProxy over a plain console; a render hook fails chosen prints."""

    def __init__(self, sim, case, env):
        self.sim = sim
        self.case = case
        self.viol = []
        self.failed = 0
        self.completed = 0
        sim.spawn(self.body, "c0")

    def _v(self, oracle, sig, msg):
        if not self.viol:
            self.viol.append({"oracle": oracle, "sig": sig, "msg": msg, "seq": self.sim.seq})

    def body(self):
        import io as _io

        from rich.console import Console, RenderHook
        from rich.file_proxy import FileProxy

        prog = self

        class Hook(RenderHook):
            armed = None

            def process_renderables(self, renderables):
                how, self.armed = self.armed, None
                if how:
                    raise (InjectedInterrupt if how == "base" else InjectedFault)("C19-print")
                return renderables

        file = SimFile(self.sim, tty=True)
        con = Console(file=file, width=200, height=50, force_terminal=True, color_system="truecolor", _environ={})
        hook = Hook()
        con.push_render_hook(hook)
        proxy = FileProxy(con, _io.StringIO())
        pending = ""
        expected = []  # [line, optional]
        for ev in self.case["events"]:
            self.sim.yield_point("op")
            if ev[0] == "w":
                chunk, fault = ev[2], ev[3] if len(ev) > 3 else None
                parts = (pending + chunk).split("\n")
                complete, pending = parts[:-1], parts[-1]
                self.completed += len(complete)
                hook.armed = fault if complete else None
                try:
                    proxy.write(chunk)
                    if fault and complete:
                        self._v("fault", "fault-swallowed", "the error of the print issued by write() did not come out of write()")
                    expected.extend([ln, False] for ln in complete)
                except FAULTS:
                    self.failed += 1
                    # un-acknowledged: the lines this write completed may be lost (or printed);
                    # the partial line after them was taken and stays pending
                    expected.extend([ln, True] for ln in complete)
                hook.armed = None
            else:
                if pending:
                    expected.append([pending, False])
                    pending = ""
                proxy.flush()
        got = term.visible_text(file.getvalue()).split("\n")
        if got and got[-1] == "":
            got.pop()
        # got must be `expected` with some of the optional lines left out (lines may repeat, e.g.
        # empty ones, so this is a small search, not a greedy walk)
        memo = {}

        def fits(i, j):
            if (i, j) in memo:
                return memo[i, j]
            if i == len(expected):
                r = j == len(got)
            else:
                ln, optional = expected[i]
                r = (j < len(got) and got[j] == ln and fits(i + 1, j + 1)) or (optional and fits(i + 1, j))
            memo[i, j] = r
            return r

        if not fits(0, 0):
            self._v("complete", "line-lost-or-mangled-after-fault", "after %d failed print(s) the console shows %r; written lines (optional = completed by a failed write): %r" % (self.failed, got, expected))

    def finish(self):
        v = list(self.viol)
        for t in self.sim.threads:
            if t.exc is not None:
                v.append({"oracle": "exception", "sig": "exception:" + type(t.exc).__name__, "msg": "%s died: %s" % (t.name, (t.tb or "")[-600:]), "seq": self.sim.seq})
        return {"violations": v, "faults": {"failed_prints_under_proxy": self.failed}, "probes": {"pf_runs": 1, "pf_failed_prints": self.failed, "pf_lines_completed": self.completed},
                "nontrivial": self.completed > 0, "sample": {"kind": "pf", "events": self.case["events"][:10]}}


class MultiWriter:
    """Worker threads writing whole lines to the redirected stdout / stderr of one display."""

    def __init__(self, sim, case, env):
        from rich.console import Console

        self.sim = sim
        self.case = case
        self.viol = []
        self.file = SimFile(sim, tty=True)
        self.console = Console(file=self.file, width=120, height=40, force_terminal=True, color_system="truecolor", _environ={})
        self.n = len(case["threads"])
        self.done = 0
        self.ready = sched.SimEvent()
        self.finished = sched.SimEvent()
        for t in range(self.n):
            sim.spawn(self._body(t), "c%d" % t)

    def _v(self, oracle, sig, msg):
        if not self.viol:
            self.viol.append({"oracle": oracle, "sig": sig, "msg": msg, "seq": self.sim.seq})

    def _streams(self):
        return {"o": sys.stdout, "e": sys.stderr}

    def _body(self, t):
        def run():
            cfg = self.case["cfg"]
            if t == 0:
                import io as _io

                from rich.file_proxy import FileProxy
                from rich.live import Live

                if cfg["live"]:
                    self.display = Live("F0 frame", console=self.console, auto_refresh=False, redirect_stdout=True, redirect_stderr=True)
                    self.display.start()
                    self.out = self._streams()
                else:
                    self.display = None
                    self.out = {"o": FileProxy(self.console, _io.StringIO()), "e": FileProxy(self.console, _io.StringIO())}
                self.ready.set()
            else:
                self.ready.wait()
            try:
                for i, chunk in enumerate(self.case["threads"][t]):
                    self.sim.yield_point("op")
                    ch = cfg["chan"] if cfg["chan"] != "both" else "oe"[(t + i) % 2]
                    self.out[ch].write(chunk)
            finally:
                self.done += 1
                if self.done == self.n:
                    self.finished.set()
            if t == 0:
                self.finished.wait()
                if self.display is not None:
                    self.display.stop()
        return run

    def finish(self):
        v = list(self.viol)
        for t in self.sim.threads:
            if t.exc is not None:
                v.append({"oracle": "exception", "sig": "exception:" + type(t.exc).__name__, "msg": "%s died: %s" % (t.name, (t.tb or "")[-600:]), "seq": self.sim.seq})
        written = [[ln for chunk in th for ln in chunk.split("\n")[:-1]] for th in self.case["threads"]]
        if not v and self.sim.failure is None:
            # stream level (what was printed through the console), not screen level: with a live
            # frame two printing threads are the known finding F6 on the screen
            # (a printed line starts right after the cursor controls that erase the frame, so in the
            # visible text it may follow frame text without a newline: lines are taken from their
            # token to the end of the line)
            got = [ln.rstrip() for ln in re.findall(r"M\d+_\d+z[^\n]*", term.visible_text(self.file.getvalue()))]
            allw = [ln for th in written for ln in th]
            if sorted(got) != sorted(allw):
                lost = [ln for ln in allw if ln not in got]
                odd = [ln for ln in got if ln not in allw]
                v.append({"oracle": "complete", "sig": "concurrent-line-lost-or-merged", "seq": self.sim.seq,
                          "msg": "whole lines written by %d threads: not printed exactly once and whole -- missing %r, not written by anyone %r" % (self.n, lost[:6], odd[:6])})
            else:
                for t, th in enumerate(written):
                    mine = [ln for ln in got if ln.startswith("M%d_" % t)]
                    if mine != th:
                        v.append({"oracle": "order", "sig": "concurrent-line-order", "seq": self.sim.seq,
                                  "msg": "lines of thread %d printed as %r, written as %r" % (t, mine, th)})
                        break
        nlines = sum(len(th) for th in written)
        return {"violations": v, "faults": {"preemptions": max(0, self.sim.switches - len(self.sim.threads))},
                "probes": {"mw_runs": 1, "mw_lines": nlines, "mw_switches": self.sim.switches},
                "nontrivial": self.sim.switches > len(self.sim.threads), "sample": {"kind": "mw", "threads": self.case["threads"]}}


class Proxy:
    def __init__(self, sim, case, env):
        from rich.console import Console

        self.sim = sim
        self.case = case
        cfg = self.cfg = case["cfg"]
        W, H = cfg["width"], cfg["height"]
        self.clock = SimClock(sim, env.clock_rng, mode="frozen")
        self.file = SimFile(sim, tty=True)
        self.console = Console(file=self.file, width=W, height=H, force_terminal=True, color_system="truecolor", _environ={},
                               get_time=self.clock.time, get_datetime=self.clock.datetime, log_time=False, log_path=False)
        self.pristine = Pristine(W, H, "truecolor", clock=self.clock)
        self.oracle = DisplayOracle(sim, W, H, self.pristine, kind=cfg["display"], transient=cfg["transient"], overflow="ellipsis")
        self.oracle.watch_hooks(self.console)
        if cfg["auto_refresh"]:
            self.oracle.tracker = SpanTracker(sim, self.console)
        self.file.on_write = self.oracle.on_write
        self.oracle.frames_fn = self.frames
        self.input_model = {ch: term.Screen(W, 100000) for ch in "oe"}
        self.pending = {"o": "", "e": ""}
        self.pieces = {}
        self.viol = []
        self.frame_rows = None
        self.probes = {"writes_torn_in_escape": 0, "empty_writes": 0, "multi_newline_writes": 0, "flushes": 0,
                       "flush_on_empty": 0, "flush_partial": 0, "flush_skipped_esc": 0, "lines_completed": 0,
                       "stderr_lines": 0, "partial_at_stop": 0, "writes_with_3plus_lines_and_prefix": 0, "lines_torn_3plus": 0, "wide_lines": 0}
        self.stdout_sentinel, self.stderr_sentinel = sys.stdout, sys.stderr
        if cfg["display"] == "live":
            from rich.live import Live

            self.frame_desc = {"t": "text", "lines": ["F0.0 frame", "F0.1 frame"], "style": None}
            self.display = Live(build(self.frame_desc), console=self.console, auto_refresh=cfg["auto_refresh"],
                                refresh_per_second=cfg["rps"], transient=cfg["transient"])
        else:
            from rich.progress import Progress

            self.display = Progress("{task.description}", "|", console=self.console, auto_refresh=cfg["auto_refresh"],
                                    refresh_per_second=cfg["rps"], transient=cfg["transient"], get_time=self.clock.time)
            self.display.add_task("T0 job", total=10)
        t = sim.spawn(self.body, "c0")
        self.oracle.client_tids.add(t.tid)

    def frames(self, why):
        if self.frame_rows is None:
            if self.cfg["display"] == "live":
                self.frame_rows = self.pristine.render_rows(build(self.frame_desc))
            else:
                from rich.table import Table

                table = Table.grid(padding=(0, 1))
                table.add_column(no_wrap=True)
                table.add_column(no_wrap=True)
                table.add_row("T0 job", "|")
                self.frame_rows = self.pristine.rows(lambda c: c.print(table))
        return [self.frame_rows]

    def _rows_for(self, ch, lines):
        """Rows the input model assigns to these complete lines of channel ch."""
        scr = self.input_model[ch]
        out = []
        for ln in lines:
            r0 = scr.row
            if ln.translate(STRIP) != ln:
                self.probes["lines_with_stripped_controls"] = self.probes.get("lines_with_stripped_controls", 0) + 1
            scr.feed(ln.translate(STRIP) + "\n")
            tok = re.match(r"L[oe]\d+z", term.visible_text(ln))
            pieces = self.case.get("wide", {}).get(tok.group(0)) if tok else None
            if pieces is not None:
                # wider than the console: rich word-wraps; layout trusted (pristine print of the
                # very pieces the line was encoded from -- the decoder is not involved)
                from rich.text import Text

                self.probes["wide_lines"] += 1
                tx = Text()
                for t, st in pieces:
                    tx.append(t, style=st or None)
                rows = self.pristine.rows(lambda c: c.print(tx))
                # ... but only as far as the layout goes: "complete" is checked independently:
                # wrapping may move and drop blanks, never another character
                want = "".join(ch for t, _ in pieces for ch in t if not ch.isspace())
                have = "".join(c[0] for r in rows for c in r if c[0] and not c[0].isspace())
                # styling, independently of rich's layout too: the same encoded line on a terminal wide
                # enough not to wrap gives every non-blank character its cell attributes
                flat = term.Screen(100000, 4)
                flat.feed(ln.translate(STRIP) + "\n")
                want_cells = [c for c in flat.cells(0) if c[0] and not c[0].isspace()]
                have_cells = [c for r in rows for c in r if c[0] and not c[0].isspace()]
                if want == have and want_cells != have_cells:
                    i = next((i for i, (a, b) in enumerate(zip(want_cells, have_cells)) if a != b), 0)
                    self._v("style", "line-style-moved-in-wrapping", "a redirected line wider than the console: character %d %r is laid out with style %r, written with %r" % (
                        i, want_cells[i][0] if i < len(want_cells) else "", have_cells[i][1] if i < len(have_cells) else None, want_cells[i][1] if i < len(want_cells) else None))
                if want != have:
                    self._v("complete", "line-incomplete", "a redirected line wider than the console lost characters in wrapping: wrote %r, laid out as %r" % (want[:120], have[:120]))
                out.extend(rows)
            else:
                for r in range(r0, scr.row):
                    out.append(scr.cells(r))
        return out

    def body(self):
        o = self.oracle
        o.cursor_hidden_expected = None
        if o.tracker:
            o.tracker.start_event()
        o.begin_op("start", [("frame",)], optional_frame=not (self.cfg["display"] == "progress"))
        try:
            with self.display:
                o.end_op()
                for ev in self.case["events"]:
                    self.sim.yield_point("op")
                    self.do(ev)
                if o.tracker:
                    o.tracker.stop_begin()
                stages = [("final",), ("erase",) if self.cfg["transient"] else ("freeze",)]
                tail_stages = []
                for ch in "oe":  # stop() flushes stdout, then stderr
                    p = self.pending[ch]
                    if p and "\x1b" not in p:
                        self.probes["partial_at_stop"] += 1
                        scr = term.Screen(self.cfg["width"], 1000)
                        scr.feed(p.translate(STRIP) + "\n")
                        tail_stages.append(("print", [scr.cells(r) for r in range(scr.row)]))
                        self.pending[ch] = ""
                o.begin_op("stop", tail_stages + stages)
        finally:
            o.end_op()
            if o.tracker:
                o.tracker.stop_end()
        if sys.stdout is not self.stdout_sentinel or sys.stderr is not self.stderr_sentinel:
            self._v("cleanup", "stdio-not-restored", "stdout/stderr still redirected after the block")

    def _v(self, oracle, sig, msg):
        if not self.viol:
            self.viol.append({"oracle": oracle, "sig": sig, "msg": msg, "seq": self.sim.seq})

    def do(self, ev):
        o = self.oracle
        k = ev[0]
        stream = {"o": sys.stdout, "e": sys.stderr}
        if k == "w":
            ch, chunk = ev[1], ev[2]
            if chunk == "":
                self.probes["empty_writes"] += 1
            if chunk.count("\n") > 1:
                self.probes["multi_newline_writes"] += 1
            if self.pending[ch] and chunk.count("\n") >= 3:
                self.probes["writes_with_3plus_lines_and_prefix"] += 1
            self.pieces[ch] = self.pieces.get(ch, 0) + 1 if self.pending[ch] else 1
            if "\n" in chunk and self.pieces[ch] >= 3:
                self.probes["lines_torn_3plus"] += 1
            data = self.pending[ch] + chunk
            parts = data.split("\n")
            complete, self.pending[ch] = parts[:-1], parts[-1]
            tail = self.pending[ch]
            if "\x1b" in tail and not self._esc_complete(tail):
                self.probes["writes_torn_in_escape"] += 1
            if complete:
                self.probes["lines_completed"] += len(complete)
                if ch == "e":
                    self.probes["stderr_lines"] += len(complete)
                rows = self._rows_for(ch, complete)
                o.begin_op(["write", ch, len(complete)], [("print", rows)])
                if o.tracker:
                    o.tracker.print_begin()
            else:
                o.begin_op(["write", ch, 0], [])
            stream[ch].write(chunk)
            o.end_op()
        elif k == "wl":
            # writelines(): one write() per piece, in order; every piece that completes lines is a
            # print of its own
            ch = ev[1]
            stages = []
            for chunk in ev[2]:
                data = self.pending[ch] + chunk
                parts = data.split("\n")
                complete, self.pending[ch] = parts[:-1], parts[-1]
                if complete:
                    self.probes["lines_completed"] += len(complete)
                    if ch == "e":
                        self.probes["stderr_lines"] += len(complete)
                    stages.append(("print", self._rows_for(ch, complete)))
            self.pieces[ch] = 1
            self.probes["writelines_calls"] = self.probes.get("writelines_calls", 0) + 1
            o.begin_op(["writelines", ch, len(stages)], stages)
            if stages and o.tracker:
                o.tracker.print_begin()
            stream[ch].writelines(list(ev[2]))
            o.end_op()
        elif k == "flush":
            ch = ev[1]
            p = self.pending[ch]
            if "\x1b" in p:
                # half an escape sequence cannot be "emitted": not generated (the property's flush
                # clause is about pending *text*)
                self.probes["flush_skipped_esc"] += 1
                return
            self.probes["flushes"] += 1
            if p:
                self.probes["flush_partial"] += 1
                scr = term.Screen(self.cfg["width"], 1000)
                scr.feed(p.translate(STRIP) + "\n")
                rows = [scr.cells(r) for r in range(scr.row)]
                self.pending[ch] = ""
                o.begin_op(["flush", ch, p], [("print", rows)])
                if o.tracker:
                    o.tracker.print_begin()
            else:
                self.probes["flush_on_empty"] += 1
                o.begin_op(["flush", ch, ""], [])
            o.sig_hint = "flush-mangled-partial-line" if p else None
            try:
                stream[ch].flush()
                o.end_op()
            finally:
                o.sig_hint = None
        elif k == "sleep":
            o.begin_op(ev, [])
            self.sim.sleep(ev[1])
            o.end_op()
        elif k == "refresh":
            o.begin_op(ev, [("frame",)])
            if o.tracker:
                o.tracker.print_begin()
            self.display.refresh()
            o.end_op()

    @staticmethod
    def _esc_complete(s):
        try:
            list(term.tokens(s))
            return True
        except term.TermError:
            return False

    def finish(self):
        sim = self.sim
        viols = []
        if self.oracle.viol is not None:
            viols.append(self.oracle.viol)
        viols.extend(self.viol)
        for t in sim.threads:
            if t.exc is not None:
                if isinstance(t.exc, term.TermError):
                    return {"violations": [], "faults": {}, "probes": self.probes, "nontrivial": False, "sample": None,
                            "harness_error": "TermError: %s" % t.exc}
                viols.append({"oracle": "exception", "sig": "exception:" + type(t.exc).__name__,
                              "msg": "%s died: %s" % (t.name, (t.tb or "")[-600:]), "seq": sim.seq})
        probes = dict(self.probes)
        probes.update({"o_" + k: v for k, v in self.oracle.probe.items() if k in ("frame_writes", "helper_frame_writes", "writes", "scrolled")})
        faults = {"torn_writes": sum(1 for e in self.case["events"] if e[0] == "w"), "torn_inside_escape": self.probes["writes_torn_in_escape"],
                  "flush": self.probes["flushes"], "timer_fired_by_choice": sim.stats["timer_fired_by_choice"]}
        return {"violations": viols, "faults": faults, "probes": probes, "nontrivial": self.probes["lines_completed"] > 0,
                "sample": {"kind": "proxy", "cfg": self.cfg, "events": self.case["events"][:10]}}


C19.rule = ("cases drawn from VERIF_SEED: 25% direct round trips (1-12 styled texts: 13 attributes, default/standard/256/24-bit colours, links; half of them printed with a base style through a console), "
            "9% FileProxy over a console whose render hook fails chosen prints (Exception / BaseException; lines completed by a failed write may be missing, nothing else), "
            "9% several writer threads (2-3) writing whole unstyled lines to one redirected stream under a seeded schedule (each line printed once, whole, in its writer's order), "
            "57% proxy runs (1-7/14 styled lines, 5% of their words carrying a BS / VT / FF that rich strips, over stdout+stderr, encoder-made or hand-written SGR with carry-over, torn at seeded positions biased "
            "into escape sequences, with empty writes, writelines() calls, flushes, sleeps and refreshes; Live or Progress; refresh thread in 40%); non-trivial = at least "
            "one text / one completed line; distinct = distinct (case, switch-signature)")
C19.components_real = ["rich.ansi (AnsiDecoder)", "rich.file_proxy (FileProxy)", "rich.style / rich.color (encoder)", "rich.live", "rich.progress", "rich.console"]
C19.components_stub = ["terminal -> SimFile + dsim.term", "sys.stdout/sys.stderr originals -> StringIO sentinels (the FileProxy objects rich installs are real)",
                       "threading primitives / scheduler / clock -> dsim"]
C19.assumptions = ["lines are at most as wide as the console (wider lines are word-wrapped by rich and hard-wrapped by a terminal)",
                   "no CR/BS/VT/FF inside lines; a flush is generated only when the pending partial line holds no ESC",
                   "hand-written SGR family restricted to codes both rich and the terminal model give the same meaning (no 6, 21, 26, 51-55, empty parameters); hand-written hyperlinks are opened and closed by separate OSC 8 sequences, possibly lines apart",
                   "lines wider than the console: layout (where rich wraps) is taken from a pristine print, completeness (no non-blank character lost) is checked independently",
                   "link ids are normalised (rich derives them from wall-clock time and global randomness)"]
CHECK = C19()
