"""C20 — named styles resolve through a well-behaved theme stack.

Thinnest fit of the six (DESIGN 5.6): one thread, no clock.  What makes it a fault-injection
target is "including when the block exits by exception": histories of push/pop/use_theme with
exceptions injected at every depth of nesting (optionally unwinding a Live display on the same
exception), checked against a reference model after every step.  Plus the config round trip
through a text stream.
Real code: rich.theme (Theme, ThemeStack), rich.console (get_style, push_theme, pop_theme,
use_theme / ThemeContext), rich.style, rich.live (in the wrapped variant).
"""
import copy
import io
import sys

from dsim import sched, seams
from dsim.programs import FAULTS, InjectedFault, InjectedInterrupt
from dsim.seams import SimClock, SimFile

PROP = "C20"
NAMES = ["warning", "info", "danger", "repr.number", "rule.line", "bold", "bold red", "on blue", "nosuch.style", "not a style!", "progress.description", "x.y",
         # style names are case sensitive: a theme may define "Warning" next to the default "warning"
         "Warning", "x.Y", "Bold", "INFO"]
DEFS = ["bold red", "green", "italic #ff8800 on black", "underline", "dim color(42)", "reverse", "bold", "none", "blue on white", "strike bright_cyan"]
CUSTOM = ["warning", "info", "danger", "repr.number", "rule.line", "x.y", "bold"]
MIXED = ["Warning", "x.Y", "INFO"]


ATTRS = ["bold", "dim", "italic", "underline", "blink", "blink2", "reverse", "conceal", "strike", "underline2", "frame", "encircle", "overline"]


def gen_def(rng):
    """A style definition from the whole style space: 13 tri-state attributes, default / named /
    indexed / 24-bit colours, optional link (no '%': configparser would interpolate it)."""
    if rng.random() < 0.5:
        return rng.choice(DEFS)
    parts = []
    for a in ATTRS:
        r = rng.random()
        if r < 0.1:
            parts.append(a)
        elif r < 0.15:
            parts.append("not " + a)
    for prefix in ("", "on "):
        r = rng.random()
        if r < 0.15:
            parts.append(prefix + rng.choice(["red", "bright_blue", "default", "black", "grey50", "dark_orange3"]))
        elif r < 0.3:
            parts.append(prefix + "color(%d)" % rng.randrange(256))
        elif r < 0.45:
            parts.append(prefix + "#%02x%02x%02x" % (rng.randrange(256), rng.randrange(256), rng.randrange(256)))
        elif r < 0.5:
            parts.append(prefix + "rgb(%d,%d,%d)" % (rng.randrange(256), rng.randrange(256), rng.randrange(256)))
    if rng.random() < 0.1:
        parts.append("link https://example.org/x?a=1&b=%d" % rng.randrange(9))
    return " ".join(parts) or "none"


def gen_theme(rng):
    n = rng.randint(0, 4)
    styles = {}
    for name in rng.sample(CUSTOM, n) + ([rng.choice(MIXED)] if rng.random() < 0.12 else []):
        if any(k.lower() == name.lower() for k in styles):
            continue  # no two names of one theme differ in case only (configparser refuses such a file)
        styles[name] = gen_def(rng)
    return {"styles": styles, "inherit": rng.random() < 0.7}


def gen_ops(rng, depth, budget, fid, npool=4):
    ops = []
    n = rng.randint(1, 4)
    for _ in range(n):
        if budget[0] <= 0:
            break
        budget[0] -= 1
        r = rng.random()
        if r < 0.3:
            ops.append(["get", rng.choice(NAMES), rng.choice([None, None, "bold", "nosuch.style2"])])
        elif r < 0.55 and depth < 4:
            ops.append(["use", rng.randrange(npool), rng.random() < 0.6, gen_ops(rng, depth + 1, budget, fid), rng.random() < 0.15])
        elif r < 0.72 and depth < 4:
            ops.append(["push", rng.randrange(npool), rng.random() < 0.6, gen_ops(rng, depth + 1, budget, fid)])
        elif r < 0.82 and depth > 0:
            fid[0] += 1
            ops.append(["raise", fid[0], rng.random() < 0.3])  # 30%: a bare BaseException
            break
        elif r < 0.92 and depth < 4:
            ops.append(["catch", gen_ops(rng, depth + 1, budget, fid)])
        elif r < 0.96:
            # a push that fails in the caller's face (the classic slip: a dict instead of a Theme,
            # or None): whatever it raises, it must leave every lookup as it was
            ops.append(["badpush", rng.choice(["dict", "none", "use-dict"]), rng.random() < 0.5])
        else:
            ops.append(["pop"])
    return ops


_PRISTINE = []
_THEME_FILES = {}


def _theme_open(path, mode="r", *args, **kwargs):
    """File seam for Theme.read: sim:// paths are served from memory, anything else is real."""
    if str(path) in _THEME_FILES:
        return io.StringIO(_THEME_FILES[str(path)])
    import builtins

    return builtins.open(path, mode, *args, **kwargs)


def _pristine_defaults():
    """DEFAULT_STYLES as it was when this process first looked (before any history ran)."""
    if not _PRISTINE:
        from rich.default_styles import DEFAULT_STYLES

        _PRISTINE.append(dict(DEFAULT_STYLES))
    return _PRISTINE[0]


class C20:
    prop = PROP
    level = "exploration"
    line_modules = seams.TARGET_MODULES

    def opcode_modules(self, case):
        return ()

    def policy(self, case, rng):
        return {"kind": "none"}

    def gen(self, rng, tier, idx):
        budget = [30 if tier == "thorough" else 14]
        fid = [0]
        ops = [["catch", gen_ops(rng, 1, budget, fid)] for _ in range(rng.randint(1, 3))]
        # a small pool of Theme objects: the *same object* is pushed again and again, over
        # different parents, with and without inherit (what `theme = Theme(...)` at module level
        # and `with console.use_theme(theme)` in a loop does)
        pool = [gen_theme(rng) for _ in range(4)]
        return {"ops": ops, "live": rng.random() < 0.25, "base_theme": gen_theme(rng) if rng.random() < 0.3 else None,
                "pool": pool, "config_themes": [0, 1, 2, 3], "xthread": rng.random() < 0.25}

    def setup(self, sim, case, env):
        return Prog(sim, case, env)

    def finish(self, sim, case, prog):
        return prog.finish()

    def shrink(self, case):
        def paths(ops, prefix):
            for i, op in enumerate(ops):
                yield prefix + [i]
                if op[0] in ("use", "push"):
                    yield from paths(op[3], prefix + [i, 3])
                elif op[0] == "catch":
                    yield from paths(op[1], prefix + [i, 1])

        def get(ops, path):
            cur = ops
            for p in path[:-1]:
                cur = cur[p]
            return cur, path[-1]

        allp = list(paths(case["ops"], []))
        for path in reversed(allp):
            c = copy.deepcopy(case)
            parent, i = get(c["ops"], path)
            del parent[i]
            yield c
        for path in allp:
            c = copy.deepcopy(case)
            parent, i = get(c["ops"], path)
            op = parent[i]
            if op[0] in ("use", "push", "catch"):
                body = op[3] if op[0] != "catch" else op[1]
                parent[i:i + 1] = body  # unwrap
                yield c
        if case["live"]:
            c = copy.deepcopy(case)
            c["live"] = False
            yield c
        if case["base_theme"]:
            c = copy.deepcopy(case)
            c["base_theme"] = None
            yield c
        if case["config_themes"]:
            c = copy.deepcopy(case)
            c["config_themes"] = []
            yield c
        if case.get("xthread"):
            c = copy.deepcopy(case)
            c["xthread"] = False
            yield c
        for i, t in enumerate(case["pool"]):
            for name in list(t["styles"]):
                c = copy.deepcopy(case)
                del c["pool"][i]["styles"][name]
                yield c


class Prog:
    def __init__(self, sim, case, env):
        from rich.console import Console
        from rich.default_styles import DEFAULT_STYLES
        from rich.style import Style
        from rich.theme import Theme

        self.sim = sim
        self.case = case
        self.clock = SimClock(sim, env.clock_rng, mode="frozen")
        self.file = SimFile(sim, tty=True)
        bt = case["base_theme"]
        self.Style, self.Theme = Style, Theme
        pristine = _pristine_defaults()
        if dict(DEFAULT_STYLES) != pristine:
            # an earlier run in this process polluted the global defaults (it was reported for it):
            # put them back, so that this run does not depend on its predecessors and replays alone
            DEFAULT_STYLES.clear()
            DEFAULT_STYLES.update(pristine)
            try:
                from rich import themes as _themes

                if hasattr(_themes.DEFAULT, "styles") and _themes.DEFAULT.styles is not DEFAULT_STYLES:
                    _themes.DEFAULT.styles.clear()
                    _themes.DEFAULT.styles.update(pristine)
            except Exception:
                pass
        self.defaults = dict(DEFAULT_STYLES)
        base = self._map(bt) if bt else dict(self.defaults)
        self.console = Console(file=self.file, width=40, height=10, force_terminal=True, color_system="truecolor", _environ={},
                               get_time=self.clock.time, get_datetime=self.clock.datetime,
                               theme=self._theme(bt) if bt else None)
        self.layers = [(base, True)]
        self.pool_objs = [self._theme(t) for t in case["pool"]]
        self.pool_maps = [self._map(t) for t in case["pool"]]
        self.viol = []
        self.probes = {"lookups": 0, "unwound_blocks": 0, "max_unwind_depth": 0, "pop_base_attempts": 0, "non_inheriting_pushes": 0,
                       "use_theme_noninherit": 0, "failed_pushes": 0, "config_roundtrips": 0, "live_wrapped": int(case["live"]), "missing_style_lookups": 0}
        self.depth_now = 0
        self.stdout_sentinel, self.stderr_sentinel = sys.stdout, sys.stderr
        sim.spawn(self.body, "c0")

    def _v(self, oracle, sig, msg):
        if not self.viol:
            self.viol.append({"oracle": oracle, "sig": sig, "msg": msg, "seq": self.sim.seq})

    def _theme(self, t):
        return self.Theme(dict(t["styles"]), inherit=t["inherit"])

    def _map(self, t):
        m = dict(self.defaults) if t["inherit"] else {}
        for k, v in t["styles"].items():
            m[k] = self.Style.parse(v)
        return m

    # -- model -----------------------------------------------------------------
    def model_lookup(self, name, default):
        from rich import errors

        for mapping, inherited in reversed(self.layers):
            if name in mapping:
                return ("ok", mapping[name])
            if not inherited:
                break
        try:
            return ("ok", self.Style.parse(name))
        except errors.StyleSyntaxError:
            if default is not None:
                return self.model_lookup(default, None)
            return ("err", "MissingStyle")

    def check(self, name, default=None, where=""):
        from rich import errors

        self.probes["lookups"] += 1
        exp = self.model_lookup(name, default)
        if self.case.get("xthread") and self.probes["lookups"] % 3 == 0:
            # the look-up is made by another thread than the one that pushed (what the refresh thread
            # of a Live / Progress does when it renders): the themes pushed on the console count,
            # whichever thread asks
            import threading

            box = []

            def work():
                try:
                    box.append(("ok", self.console.get_style(name, default=default)))
                except errors.MissingStyle:
                    box.append(("err", "MissingStyle"))

            th = threading.Thread(target=work)
            th.start()
            th.join()
            self.probes["lookups_from_another_thread"] = self.probes.get("lookups_from_another_thread", 0) + 1
            got = box[0] if box else ("err", "look-up thread died")
            where = (where + " [asked by another thread]").strip()
        else:
            try:
                got = ("ok", self.console.get_style(name, default=default))
            except errors.MissingStyle:
                got = ("err", "MissingStyle")
        if exp[0] == "err":
            self.probes["missing_style_lookups"] += 1
        if got != exp:
            sig = "lookup-mismatch"
            if self._explained_by_use_inherit(name, default, got):
                sig = "use-theme-ignores-inherit"
            self._v("lookup", sig, "get_style(%r, default=%r) %s = %r, model says %r (stack depth %d)" % (
                name, default, where, got, exp, len(self.layers)))

    def _explained_by_use_inherit(self, name, default, got):
        """Would the model agree if every use_theme layer were treated as inheriting?"""
        saved = self.layers
        try:
            self.layers = [(m, True if u else inh) for (m, inh), u in zip(saved, self.layer_is_use)]
            return self.model_lookup(name, default) == got
        finally:
            self.layers = saved

    def check_all(self, where):
        for name in NAMES:
            self.check(name, None, where)

    # -- program ---------------------------------------------------------------
    def body(self):
        self.layer_is_use = [False]
        if self.case["live"]:
            from rich.live import Live

            try:
                with Live("frame", console=self.console, auto_refresh=False):
                    self.run_top()
            except FAULTS:
                self._v("propagation", "fault-escaped-catch", "an injected fault escaped every catch block")
            if not self._cursor_visible():
                self._v("cleanup", "cursor-hidden-after-exit", "cursor hidden after the Live block around the theme program exited")
        else:
            self.run_top()
        self.check_all("at the end")
        if len(self.layers) != 1:
            raise sched.HarnessError("model stack not balanced")
        self.config_roundtrip()

    def _cursor_visible(self):
        out = self.file.getvalue()
        return out.rfind("\x1b[?25h") >= out.rfind("\x1b[?25l")

    def run_top(self):
        self.check_all("initially")
        self.run_ops(self.case["ops"], 0)

    def run_ops(self, ops, depth):
        from rich.theme import ThemeStackError

        con = self.console
        for op in ops:
            k = op[0]
            if k == "get":
                self.check(op[1], op[2], "(get op)")
            elif k in ("use", "push"):
                ti, inherit, body = op[1], op[2], op[3]
                theme = self.pool_objs[ti]
                layer = (self.pool_maps[ti], inherit)
                if not inherit:
                    self.probes["non_inheriting_pushes" if k == "push" else "use_theme_noninherit"] += 1
                before = [self.model_lookup(n, None) for n in NAMES]
                try:
                    if k == "use":
                        ctx = con.use_theme(theme, inherit=inherit)
                        reenter = len(op) > 4 and op[4]

                        def block(inner, where):
                            with ctx:
                                self.layers.append(layer)
                                self.layer_is_use.append(True)
                                try:
                                    self.check_all(where)
                                    inner()
                                finally:
                                    self.layers.pop()
                                    self.layer_is_use.pop()

                        if reenter:
                            # the same context object entered again while it is active: two
                            # pushes, two pops
                            self.probes["use_theme_reentered"] = self.probes.get("use_theme_reentered", 0) + 1

                            def twice():
                                block(lambda: self.run_ops(body, depth + 1), "inside a re-entered use_theme")
                                self.check_all("after the inner exit of a re-entered use_theme")

                            block(twice, "inside use_theme")
                        else:
                            block(lambda: self.run_ops(body, depth + 1), "inside use_theme")
                    else:
                        con.push_theme(theme, inherit=inherit)
                        self.layers.append(layer)
                        self.layer_is_use.append(False)
                        try:
                            self.check_all("after push_theme")
                            self.run_ops(body, depth + 1)
                        finally:
                            con.pop_theme()
                except FAULTS:
                    self.probes["unwound_blocks"] += 1
                    raise
                finally:
                    if k == "push" and len(self.layers) > 1 and self.layers[-1][0] is layer[0] and self.layers[-1] == layer:
                        self.layers.pop()
                        self.layer_is_use.pop()
                after = [self.model_lookup(n, None) for n in NAMES]
                if after != before:
                    raise sched.HarnessError("model: pop did not restore lookups")
                self.check_all("after leaving %s block" % k)
            elif k == "raise":
                f = (InjectedInterrupt if len(op) > 2 and op[2] else InjectedFault)("C20-%d" % op[1])
                self.raised = f
                self.raise_depth = depth
                raise f
            elif k == "catch":
                try:
                    self.run_ops(op[1], depth + 1)
                except FAULTS as e:
                    if e is not self.raised:
                        self._v("propagation", "fault-identity", "a different exception object arrived at the catch block")
                    self.probes["max_unwind_depth"] = max(self.probes["max_unwind_depth"], self.raise_depth - depth)
                    self.check_all("after unwinding to a catch block")
            elif k == "badpush":
                self.probes["failed_pushes"] += 1
                bogus = None if op[1] == "none" else {"info": "green", "warning": "bold"}
                try:
                    if op[1] == "use-dict":
                        with con.use_theme(bogus, inherit=op[2]):
                            pass
                    else:
                        con.push_theme(bogus, inherit=op[2])
                    self._v("push", "bogus-theme-accepted", "push of %r did not raise" % (bogus,))
                    return
                except FAULTS:
                    raise
                except Exception:
                    pass
                self.check_all("after a push that raised")
            elif k == "pop":
                if len(self.layers) == 1:
                    self.probes["pop_base_attempts"] += 1
                    try:
                        con.pop_theme()
                        self._v("pop-base", "base-theme-popped", "pop_theme() on the base theme did not raise")
                    except ThemeStackError:
                        pass
                    self.check_all("after a refused pop of the base theme")

    def config_roundtrip(self):
        late = []  # violations explained by known finding F19: reported only if nothing else is wrong
        try:
            self._config_roundtrip(late)
        finally:
            for a in late:
                self._v(*a)

    def _config_roundtrip(self, late):
        for ti in self.case["config_themes"]:
            theme = self._theme(self.case["pool"][ti])
            text = theme.config
            stream = io.StringIO()
            stream.write(text)
            stream.seek(0)
            back = self.Theme.from_file(stream, inherit=False)
            self.probes["config_roundtrips"] += 1
            folded = {k.lower(): v for k, v in theme.styles.items()}
            mixed = folded != dict(theme.styles)
            if mixed:
                self.probes["config_mixed_case_names"] = self.probes.get("config_mixed_case_names", 0) + 1
            if back.styles != theme.styles:
                diff = [k for k in theme.styles if back.styles.get(k) != theme.styles[k]][:3]
                # known finding F19: configparser lower-cases option names, so a theme with an upper-case
                # letter in a style name reads back under the folded name.  Exactly that and nothing else
                # is attributed to the finding: the read-back must equal the theme with its names folded
                sig = "config-names-lowercased" if mixed and back.styles == folded else "config-roundtrip"
                (late.append if sig == "config-names-lowercased" else lambda a: self._v(*a))(("config", sig, "Theme.config does not read back equal: %r" % [(k, str(theme.styles[k]), str(back.styles.get(k))) for k in diff]))
            # the same through the path API, Theme.read(path, inherit=...): the config text sits in a
            # simulated file behind rich.theme's `open` (module global shadowing the builtin)
            import rich.theme as _rt

            path = "sim://theme-%d.ini" % ti
            _THEME_FILES[path] = text
            _rt.open = _theme_open
            try:
                for inh_flag, want in ((False, dict(theme.styles)), (True, None)):
                    got_t = self.Theme.read(path, inherit=inh_flag)
                    self.probes["config_reads_by_path"] = self.probes.get("config_reads_by_path", 0) + 1
                    if want is None:
                        want = dict(self.defaults)
                        want.update(theme.styles)
                    if got_t.styles != want:
                        want_folded = {k.lower(): v for k, v in theme.styles.items()}
                        if inh_flag:
                            want_folded = dict(self.defaults, **want_folded)
                        sig = "config-names-lowercased" if mixed and got_t.styles == want_folded else "config-roundtrip"
                        diff = [k for k in set(want) | set(got_t.styles) if got_t.styles.get(k) != want.get(k)][:3]
                        (late.append if sig == "config-names-lowercased" else lambda a: self._v(*a))(
                            ("config", sig, "Theme.read(path, inherit=%r) of the theme's own config text differs at %r (%d styles read, %d expected)" % (
                                inh_flag, diff, len(got_t.styles), len(want))))
            finally:
                _THEME_FILES.pop(path, None)
            # the same text read as an inheriting theme: the defaults plus the entries
            stream.seek(0)
            inh = self.Theme.from_file(stream)
            exp = dict(self.defaults)
            exp.update(theme.styles)
            if inh.styles != exp:
                diff = [k for k in set(exp) | set(inh.styles) if inh.styles.get(k) != exp.get(k)][:3]
                exp_folded = dict(self.defaults)
                exp_folded.update(folded)
                sig = "config-names-lowercased" if mixed and inh.styles == exp_folded else "config-roundtrip"
                (late.append if sig == "config-names-lowercased" else lambda a: self._v(*a))(
                    ("config", sig, "Theme.config read back with inherit=True differs from defaults + entries at %r" % (diff,)))
        # nothing that was pushed, popped or read from a config may have leaked into the global
        # defaults: a fresh console over a fresh theme resolves every name as at the start
        from rich.console import Console
        from rich.default_styles import DEFAULT_STYLES

        if dict(DEFAULT_STYLES) != self.defaults or DEFAULT_STYLES != _pristine_defaults():
            diff = [k for k in set(DEFAULT_STYLES) | set(self.defaults) if DEFAULT_STYLES.get(k) != self.defaults.get(k)][:4]
            self._v("isolation", "defaults-mutated", "rich.default_styles.DEFAULT_STYLES changed during the history: %r" % (diff,))
        fresh = Console(file=io.StringIO(), theme=self.Theme({"x.y": "bold"}), _environ={})
        base = dict(_pristine_defaults())
        base["x.y"] = self.Style.parse("bold")
        saved, self.layers = self.layers, [(base, True)]
        try:
            from rich import errors

            for name in NAMES:
                exp = self.model_lookup(name, None)
                try:
                    got = ("ok", fresh.get_style(name))
                except errors.MissingStyle:
                    got = ("err", "MissingStyle")
                if got != exp:
                    self._v("isolation", "fresh-console-differs", "a fresh Console(theme=Theme({'x.y': 'bold'})) resolves %r to %r, expected %r: something leaked out of the history" % (name, got, exp))
                    break
        finally:
            self.layers = saved

    def finish(self):
        v = list(self.viol)
        for t in self.sim.threads:
            if t.exc is not None:
                if isinstance(t.exc, sched.HarnessError):
                    return {"violations": [], "faults": {}, "probes": self.probes, "nontrivial": False, "sample": None,
                            "harness_error": "HarnessError: %s" % t.exc}
                v.append({"oracle": "exception", "sig": "exception:" + type(t.exc).__name__, "msg": (t.tb or "")[-700:], "seq": self.sim.seq})
        faults = {"exception_unwinding_theme_blocks": self.probes["unwound_blocks"]}
        return {"violations": v, "faults": faults, "probes": dict(self.probes), "nontrivial": self.probes["lookups"] > len(NAMES) * 2,
                "sample": {"ops": self.case["ops"][:2], "live": self.case["live"]}}


C20.rule = ("balanced histories (<=14/30 operations, nesting <=4) over push_theme/pop_theme (in try/finally), use_theme blocks (15% entering the same context object twice), get_style, refused pops of the "
            "base theme and injected exceptions caught at seeded outer levels; 25% wrapped in a Live block; after every step every name of a 16-name "
            "universe (mixed-case names included) is looked up -- in 25% of the histories every third time by a helper thread -- and compared with the reference model; non-trivial = more than two full look-up rounds; distinct = distinct cases")
C20.components_real = ["rich.theme (Theme, ThemeStack, from_file, config)", "rich.console (get_style, push/pop/use_theme)", "rich.style", "rich.live (wrapped variant)"]
C20.components_stub = ["file -> SimFile", "config file -> io.StringIO text stream", "threading/clock -> dsim (unused by the property)"]
C20.assumptions = ["a bare push_theme always has its pop_theme in a finally of the client (the property speaks of 'the matching push')",
                   "style definitions in themes are drawn from a fixed list of valid definitions without '%'",
                   "one thread: the property states nothing about concurrent theme changes"]
CHECK = C20()
