"""C11 — console output is thread-safe under every interleaving.

Configurations (DESIGN 5.2):
  A  no display: 2-4 threads print / log / nest `with console:` blocks / capture on one Console;
     oracles: exactly-once + contiguity + per-thread order of every payload, capture isolation,
     record order == file order, no deadlock / termination.
  B  a display owned by thread 0, the other threads restricted to operations that never write
     (advance, update without refresh): the C10 screen invariant must hold under every schedule.
  C  a display and unrestricted threads: oracles of A on the payloads, the screen invariant in
     write order through the overlapping-critical-spans classifier (known finding F6) and the
     phantom-frame predicate (known finding F7).
Real code: rich.console, rich.live, rich.live_render, rich.progress, rich.file_proxy.
"""
import copy
import itertools
import json
import re
import sys

from dsim import sched, seams, term
from dsim.display import DisplayOracle, SpanTracker, crop_frame, nonblank
from dsim.programs import Pristine, build
from dsim.seams import SimClock, SimFile

PROP = "C11"
TOKEN = re.compile(r"Q\d+_\d+z[a-c]?")
WORDS = ["alpha", "beta", "漢字", "x y", "<&>", "é", "😀"]
STYLES = [None, None, "bold", "red on blue", "italic"]


def gen_print(rng, t, k):
    n = rng.choice([1, 1, 1, 2, 3])
    lines = ["Q%d_%dz%s %s" % (t, k, "abc"[j] if n > 1 else "", rng.choice(WORDS)) for j in range(n)]
    return {"t": "text", "lines": lines, "style": rng.choice(STYLES)}


class _Reent:
    """A renderable that prints on the console from inside its own render (re-entrant use of the
    thread's buffer): the inner print comes out first, whole, then the outer one."""

    def __init__(self, inner, outer):
        self.inner = inner
        self.outer = outer

    def __rich_console__(self, console, options):
        console.print(self.inner)
        yield self.outer


def call_output(con, op):
    """The output operations that produce one payload each."""
    k = op[0]
    if k == "print":
        con.print(build(op[1]))
    elif k == "log":
        con.log(op[1])
    elif k == "rule":
        con.rule(op[1])
    elif k == "printm":
        con.print(*[build(d) for d in op[1]])
    elif k == "out":
        con.out(op[1])
    elif k == "reent":
        con.print(_Reent(build(op[1]), build(op[2])))
    else:
        raise ValueError(k)


ONE_PAYLOAD = ("print", "log", "rule", "printm", "out", "reent")


class C11:
    prop = PROP
    level = "exploration"
    line_modules = seams.TARGET_MODULES
    policy_weights = (0.45, 0.25, 0.15, 0.15)  # random walk, PCT, single pre-emption, race-directed

    def policy(self, case, rng):
        from dsim import harness

        if case.get("force_race"):
            return {"kind": "race"}
        if case["cfg"].get("storm"):
            return harness.draw_policy(rng, (0.4, 0.2, 0.1, 0.3))
        return harness.draw_policy(rng, self.policy_weights)

    def opcode_modules(self, case):
        g = case["cfg"].get("opcode", "none")
        if g == "all":
            return ("rich.console", "rich.live", "rich.progress", "rich.live_render")
        if g == "display":
            return ("rich.live", "rich.progress")
        return ()

    # -- generation ----------------------------------------------------------
    def gen(self, rng, tier, idx):
        thorough = tier == "thorough"
        r = rng.random()
        kind = "A" if r < 0.5 else ("B" if r < 0.65 else "C")
        nthreads = rng.randint(2, 4)
        cfg = {
            "width": rng.choice([16, 24, 40]), "height": rng.choice([5, 8, 12]),
            "record": rng.random() < 0.5, "terminal": True if kind != "A" else rng.random() < 0.6,
            "color": rng.choice([None, "truecolor"]),
            "opcode": rng.choice(["none", "none", "display", "all"]),
            "display": rng.choice(["live", "progress"]) if kind != "A" else None,
            "transient": rng.random() < 0.3, "auto_refresh": kind == "C" and rng.random() < 0.4,
            "rps": rng.choice([4, 20]), "clock": "frozen", "const_height": rng.random() < 0.5,
        }
        maxops = 6 if thorough else 4
        if kind == "C" and rng.random() < 0.2:
            cfg["storm"] = True
            cfg["display"] = "progress" if rng.random() < 0.7 else "live"
            cfg["auto_refresh"] = False
        threads = []
        counters = [0] * nthreads
        fid = [0]

        def frame():
            fid[0] += 1
            n = 2 if cfg["const_height"] else rng.choice([1, 2, 3])
            return {"t": "text", "lines": ["F%d.%d f" % (fid[0], j) for j in range(n)], "style": None}

        def pr(t):
            counters[t] += 1
            return ["print", gen_print(rng, t, counters[t])]

        def lg(t):
            counters[t] += 1
            return ["log", "Q%d_%dz %s" % (t, counters[t], rng.choice(WORDS))]

        def simple(t):
            r = rng.random()
            if r < 0.62:
                return pr(t)
            if r < 0.85:
                return lg(t)
            if r < 0.90:
                counters[t] += 1
                return ["rule", "Q%d_%dz" % (t, counters[t])]
            if r < 0.95 or kind != "A":
                # several renderables in one print call: one payload
                return ["printm", [pr(t)[1] for _ in range(2)]]
            if r < 0.975:
                counters[t] += 1
                return ["out", "Q%d_%dz %s" % (t, counters[t], rng.choice(WORDS))]
            # a renderable that prints from inside its own render
            return ["reent", pr(t)[1], pr(t)[1]]

        def op_a(t, depth=0):
            r = rng.random()
            if depth == 0 and cfg["record"] and r < 0.08:
                # export_text(clear=True), or save_text(clear=True) into a simulated file (open and
                # write are yield points), while the other threads print
                return ["drain", rng.choice(["export", "export", "save"])]
            if depth == 0 and rng.random() < 0.07:
                # file fault during this output operation: the write is refused, or it is taken and the
                # flush after it fails; the thread catches the OSError and carries on printing
                inner = simple(t) if rng.random() < 0.7 else ["block", [simple(t) for _ in range(rng.randint(1, 2))]]
                return ["ioerr", rng.choice(["write", "flush", "write2"]), inner]
            if r < 0.55 or depth >= 2:
                return simple(t)
            if r < 0.8 or depth > 0:
                # a capture inside a buffered block keeps its output to itself and leaves the
                # block's pending output alone (repaired defect F14)
                return ["block", [op_a(t, depth + 1) if rng.random() > 0.15 else ["capture", [simple(t) for _ in range(rng.randint(1, 2))]]
                                  for _ in range(rng.randint(1, 3))]]
            return ["capture", [simple(t) if rng.random() < 0.8 else ["block", [simple(t)]] for _ in range(rng.randint(1, 2))]]

        for t in range(nthreads):
            ops = []
            for _ in range(rng.randint(1, maxops)):
                if kind == "A":
                    ops.append(op_a(t))
                elif t == 0:
                    r = rng.random()
                    if r < 0.4:
                        ops.append(simple(t))
                    elif r < 0.6:
                        ops.append(["refresh"])
                    elif r < 0.8 and cfg["display"] == "live":
                        ops.append(["update", frame(), rng.random() < 0.6])
                    elif r < 0.8:
                        ops.append(["vis", 0, rng.random() < 0.5, True])
                    elif r < 0.9:
                        ops.append(["sleep", rng.choice([0.01, 0.1])])
                    else:
                        ops.append(["capture", [simple(t)]] if kind == "C" else simple(t))
                elif kind == "B":
                    if cfg["display"] == "live":
                        ops.append(["update", frame(), False] if rng.random() < 0.7 else ["sleep", 0.01])
                    else:
                        ops.append(["advance", t, rng.choice([1, 2])] if rng.random() < 0.8 else ["vis", t, rng.random() < 0.5, False])
                else:
                    r = rng.random()
                    if r < 0.08:
                        # any thread may start / stop the shared display (both are idempotent)
                        ops.append(["dstart"] if rng.random() < 0.7 else ["dstop"])
                    elif r < 0.5:
                        ops.append(simple(t))
                    elif r < 0.6:
                        ops.append(["capture", [simple(t)]])
                    elif r < 0.7:
                        ops.append(["block", [simple(t), simple(t)]])
                    elif r < 0.85:
                        ops.append(["refresh"])
                    elif cfg["display"] == "live":
                        ops.append(["update", frame(), rng.random() < 0.7])
                    else:
                        ops.append(["advance", t, 1] if rng.random() < 0.5 else ["vis", t, rng.random() < 0.5, True])
            if kind == "C" and cfg.get("storm") and t == 1:
                # "restart storm": this thread stops and starts the shared display over and over
                # while the others print -- every print meets a display that is going away or
                # coming back at some point of its hook evaluation / render / write
                ops = []
                for _ in range(rng.randint(2, 3)):
                    ops.extend([["dstop"], ["dstart"]])
                    if rng.random() < 0.3:
                        ops.append(["refresh"])
            elif kind == "C" and cfg.get("storm"):
                ops = [simple(t) if rng.random() < 0.85 else ["block", [simple(t), simple(t)]] for _ in range(rng.randint(2, maxops))]
            if kind == "C" and t != 0 and rng.random() < 0.15 and not cfg.get("storm"):
                ops.insert(0, ["dstart"])  # races with the owner's start()
            if kind == "C" and t == 0 and rng.random() < 0.1:
                j = rng.randrange(len(ops) + 1)
                ops[j:j] = [["dstop"], ["dstart"]]
            threads.append(ops)
        init = frame() if cfg["display"] == "live" else None
        return {"kind": kind, "cfg": cfg, "threads": threads, "init": init,
                "stop_waits": rng.random() < (0.7 if kind == "C" else 0.5)}

    def expand(self, case, res, rng, tier):
        """A restart storm is also run under several race-directed plans (each sub-run draws its own
        plan from the dry run of the same case: another check-then-act place, another store, another
        boundary at which the storing thread is held)."""
        if not case["cfg"].get("storm") or case.get("force_race") or res["harness_error"] or res["violations"]:
            return []
        out = []
        for _ in range(6 if tier == "quick" else 16):
            c = copy.deepcopy(case)
            c["force_race"] = True
            out.append(c)
        return out

    def setup(self, sim, case, env):
        return Multi(sim, case, env)

    def finish(self, sim, case, prog):
        return prog.finish()

    def shrink(self, case):
        th = case["threads"]
        for i in range(len(th) - 1, 0, -1):
            if len(th) > 2:
                c = copy.deepcopy(case)
                del c["threads"][i]
                # thread indices are baked into tokens/task ids: keep them stable by emptying instead
                c = copy.deepcopy(case)
                c["threads"][i] = []
                if th[i]:
                    yield c
        for i in range(len(th)):
            for j in range(len(th[i]) - 1, -1, -1):
                c = copy.deepcopy(case)
                del c["threads"][i][j]
                yield c
        for key, val in (("auto_refresh", False), ("record", False), ("color", None), ("opcode", "none"), ("transient", False)):
            if case["cfg"].get(key) != val:
                c = copy.deepcopy(case)
                c["cfg"][key] = val
                yield c
        for i in range(len(th)):
            for j, op in enumerate(th[i]):
                if op[0] in ("block", "capture") and len(op[1]) > 1:
                    for k in range(len(op[1])):
                        c = copy.deepcopy(case)
                        del c["threads"][i][j][1][k]
                        yield c
                if op[0] == "print" and len(op[1]["lines"]) > 1:
                    c = copy.deepcopy(case)
                    c["threads"][i][j][1]["lines"] = op[1]["lines"][:1]
                    yield c


class Multi:
    def __init__(self, sim, case, env):
        from rich.console import Console

        self.sim = sim
        self.case = case
        cfg = self.cfg = case["cfg"]
        self.kind = case["kind"]
        W, H = cfg["width"], cfg["height"]
        self.clock = SimClock(sim, env.clock_rng, mode="frozen")
        self.file = SimFile(sim, tty=cfg["terminal"])
        self.console = Console(file=self.file, width=W, height=H, force_terminal=cfg["terminal"], color_system=cfg["color"],
                               _environ={}, get_time=self.clock.time, get_datetime=self.clock.datetime,
                               log_time=False, log_path=False, record=cfg["record"])
        self.pristine = Pristine(W, H, cfg["color"], clock=self.clock, terminal=cfg["terminal"])
        self.viol = []
        self.expected = {}  # thread -> list of payload strings that must reach the file, in order
        self.captures = []  # (thread, expected string, got string)
        self.drained = []  # token lists returned by clearing exports taken while threads print
        self.captured_tokens = set()
        self.save_files = {}
        self.nsaves = 0
        self.capture_print_open = {}  # tid -> heights of the frames a captured print may be rendering right now
        self.phantom_seq = None
        self.capturing = {}  # tid -> depth of capture() blocks the thread is in
        self.optional = set()  # first tokens of payloads whose write the file refused
        self.n = len(case["threads"])
        self.done = 0
        self.stdout_sentinel, self.stderr_sentinel = sys.stdout, sys.stderr
        self.probes = {"writes": 0, "captures": 0, "blocks": 0, "hooked_prints": 0, "print_in_capture_while_live": 0,
                       "overlap_explained": 0, "phantom_explained": 0, "draining_exports": 0, "extra_starts": 0, "extra_stops": 0, "post_probe_ok": 0, "record_compared": 0}
        self.oracle = None
        self.display = None
        self.started = False
        self.display_done = False
        self.inflight = {}  # thread -> op (model) currently executing
        self.updates = []  # live: [desc, inv, ret|None]
        self.phantom = False
        self.all_done = sched.SimEvent()
        if self.kind != "A":
            self._build_display()
        for t in range(self.n):
            th = sim.spawn(self._body(t), "c%d" % t)
            if self.oracle is not None:
                self.oracle.client_tids.add(th.tid)
        if self.oracle is not None:
            self.file.on_write = self._on_write

    # -- display -------------------------------------------------------------
    def _build_display(self):
        cfg = self.cfg
        W, H = cfg["width"], cfg["height"]
        kind = cfg["display"]
        self.oracle = DisplayOracle(self.sim, W, H, self.pristine, kind=kind, transient=cfg["transient"], overflow="ellipsis")
        self.oracle.frames_fn = self.frames
        self.frame_cache = {}
        self.oracle.watch_hooks(self.console)
        if self.kind == "C":
            self.oracle.tracker = SpanTracker(self.sim, self.console)
        if kind == "live":
            from rich.live import Live

            self.updates.append([self.case["init"], 0, 0])
            self.display = Live(build(self.case["init"]), console=self.console, auto_refresh=cfg["auto_refresh"],
                                refresh_per_second=cfg["rps"], transient=cfg["transient"], redirect_stdout=False, redirect_stderr=False)
        else:
            from rich.progress import Progress

            self.display = Progress("{task.description}", "|", console=self.console, auto_refresh=cfg["auto_refresh"],
                                    refresh_per_second=cfg["rps"], transient=cfg["transient"], redirect_stdout=False,
                                    redirect_stderr=False, get_time=self.clock.time)
            self.tasks0 = []
            self.vis_ops = []  # [task, value, inv, ret]
            self.ids = []
            for t in range(self.n):
                self.tasks0.append({"description": "T%d job" % t, "visible": True})
                self.ids.append(self.display.add_task("T%d job" % t, total=100))

    def _rows(self, key, fn):
        if key not in self.frame_cache:
            self.frame_cache[key] = fn()
        return self.frame_cache[key]

    def frames(self, why):
        """Candidate frames for the write being judged: anything that was current at some moment
        since the writer's operation began (render and write are separate steps)."""
        H = self.cfg["height"]
        b = self.oracle.span_begin()
        out = []
        if self.cfg["display"] == "live":
            done_before = [v for v in self.updates if v[2] is not None and v[2] < b]
            for u in self.updates:
                if u[2] is not None and any(u[2] < v[1] for v in done_before if v is not u):
                    continue  # definitely overwritten before the span began
                rows = self._rows(json.dumps(u[0]), lambda: self.pristine.render_rows(build(u[0])))
                fr = crop_frame(rows, "visible" if why == "final" else "ellipsis", H, self.oracle.ellipsis_row())
                if fr not in out:
                    out.append(fr)
            return out
        if why == "print":
            for fr in (self.oracle.frame, self.oracle.last_refresh_frame):
                if fr is not None and fr not in out:
                    out.append(fr)
            if not out:
                out.append([])
        # each task is toggled by one thread only, so its toggles are totally ordered: at the
        # render it shows the value after some prefix of them -- at least those that returned
        # before the span began, at most those invoked so far
        per_task = []
        for i, t0 in enumerate(self.tasks0):
            ops = [v for v in self.vis_ops if v[0] == i]
            lo = sum(1 for v in ops if v[3] is not None and v[3] < b)
            vals = []
            for j in range(lo, len(ops) + 1):
                val = ops[j - 1][1] if j > 0 else t0["visible"]
                if val not in vals:
                    vals.append(val)
            per_task.append(vals)
        for combo in itertools.product(*per_task):
            st = [{"description": t0["description"], "visible": v} for t0, v in zip(self.tasks0, combo)]
            fr = self._rows(json.dumps(st), lambda: self._progress_rows(st))
            if fr not in out:
                out.append(fr)
        return out

    def _progress_rows(self, tasks):
        from rich.table import Table

        table = Table.grid(padding=(0, 1))
        table.add_column(no_wrap=True)
        table.add_column(no_wrap=True)
        for t in tasks:
            if t["visible"]:
                table.add_row(t["description"], "|")
        return self.pristine.rows(lambda c: c.print(table))

    # -- client threads --------------------------------------------------------
    def _body(self, t):
        def run():
            try:
                if self.kind == "A" or t != 0:
                    self._run_ops(t)
                else:
                    self._owner()
            finally:
                self.done += 1
                if self.done == self.n:
                    self.all_done.set()
                    if self.oracle is not None:
                        # whoever finishes last makes sure the display is stopped (a thread may
                        # have started it again after the owner's block was left)
                        self.do(t, ["dstop"])
                    self._post()
        return run

    def _owner(self):
        o = self.oracle
        o.cursor_hidden_expected = None
        if o.tracker:
            o.tracker.start_event()
        o.begin_op("start", [("frame",)], optional_frame=not (self.cfg["display"] == "progress"))
        try:
            with self.display:
                if self.sim.me().tid not in o.pushed_by:
                    o.stages = []  # another thread had already started it
                o.end_op()
                self.started = True
                if self.kind == "B":
                    o.cursor_hidden_expected = True
                self._run_ops(0)
                if self.case.get("stop_waits"):
                    # wait until the other threads are done printing (quiescent stop)
                    while self.done < self.n - 1:
                        self.sim.sleep(0.05)
                o.cursor_hidden_expected = None
                if o.tracker:
                    o.tracker.stop_begin()
                o.begin_op("stop", [("final",), ("erase",) if self.cfg["transient"] else ("freeze",)])
        finally:
            if self.sim.me().tid not in o.popped_by:
                o.stages = []  # another thread had already stopped it
            o.end_op()
            if o.tracker:
                o.tracker.stop_end()
            self.started = False
            self.display_done = True

    def _run_ops(self, t):
        self.expected.setdefault(t, [])
        for op in self.case["threads"][t]:
            self.sim.yield_point("op")
            self.do(t, op, top=True)

    def _payloads(self, op):
        """One pristine byte string per print/log call, in program order."""
        if op[0] in ONE_PAYLOAD:
            if op[0] not in ("print", "log"):
                self.probes["payload_kind_" + op[0]] = self.probes.get("payload_kind_" + op[0], 0) + 1
            return [self.pristine.bytes(lambda c: call_output(c, op))]
        if op[0] == "block":
            out = []
            for x in op[1]:
                out.extend(self._payloads(x))
            return out
        if op[0] == "capture":
            return []  # nothing of it reaches the file
        raise ValueError(op[0])

    def _emit(self, op, t=None):
        con = self.console
        if op[0] in ONE_PAYLOAD:
            call_output(con, op)
        elif op[0] == "block":
            self.probes["blocks"] += 1
            with con:
                for x in op[1]:
                    self._emit(x, t)
        elif op[0] == "capture":
            self.probes["captures_in_blocks"] = self.probes.get("captures_in_blocks", 0) + 1
            self._capture(t, op, nested=True)
        else:
            raise ValueError(op[0])

    def _capture(self, t, op, nested=False):
        o = self.oracle
        exp = "".join("".join(self._payloads(x)) for x in op[1])
        self.probes["captures"] += 1
        for tok in TOKEN.findall(exp):
            self.captured_tokens.add(tok)
        def phantom_check():
            # known finding F7: a print inside capture() while the display is live renders the
            # frame into the capture and updates the remembered shape although nothing reached
            # the screen; it matters when that height differs from the one on screen.  The hook
            # may be installed while the capture block is already running (another thread's
            # start()), so the predicate is evaluated when the block is entered and when it is left.
            if o is not None and o.hooked:
                self.probes["print_in_capture_while_live"] += 1
                on_screen = len(o.frame) if o.frame else 0
                if any(len(fr) != on_screen for fr in self.frames("frame")):
                    if not self.phantom:
                        self.phantom_seq = self.sim.seq
                    self.phantom = True
                    o.tags.add("phantom-frame")

        if o is not None and not nested:
            o.begin_op(["capture"], [])
        phantom_check()
        n0 = len(self.file.writes)
        me = self.sim.me().tid
        if o is not None and o.tracker:
            # ... and at the very moment a print inside the block meets the display hook: another
            # thread may have restarted the display after the block was entered and drawn its first
            # frame before the block is left (thorough soak, VERIF_SEED 4242 / 4250)
            o.tracker.on_hook_eval = self._hook_eval_in_capture
        self.capturing[me] = self.capturing.get(me, 0) + 1
        self._phantom_check = phantom_check
        try:
            with self.console.capture() as cap:
                for x in op[1]:
                    self._emit(x, t)
                    self._window_sample()
                    self.capture_print_open.pop(me, None)
                phantom_check()
        finally:
            self.capturing[me] -= 1
            self.capture_print_open.pop(me, None)
        got = cap.get()
        mine = [w for w in self.file.writes[n0:] if w[1] == self.sim.me().tid]
        if mine:
            self._v("capture", "capture-leaked-to-file", "thread %d wrote %r to the file from inside capture()" % (t, mine[0][2][:80]))
        self.captures.append((t, exp, got))
        if o is not None and not nested:
            o.end_op()

    def _hook_eval_in_capture(self, tid):
        """A print inside capture() has just met the display hook: from now until that print returns
        it renders the frame and stores its shape at a moment the harness cannot see.  F7 explains a
        later violation iff at some moment of that window the frame height on the screen differed
        from the height of the frame the print renders (sampled here, after every write that reaches
        the file meanwhile, and when the print returns)."""
        if self.capturing.get(tid):
            self._phantom_check()
            self.capture_print_open[tid] = set(len(fr) for fr in self.frames("frame"))
            self._window_sample()

    def _window_sample(self):
        o = self.oracle
        if not self.capture_print_open or o is None:
            return
        on_screen = len(o.frame) if (o.hooked and o.frame) else 0
        for heights in self.capture_print_open.values():
            if any(h != on_screen for h in heights):
                if not self.phantom:
                    self.phantom_seq = self.sim.seq
                self.phantom = True
                o.tags.add("phantom-frame")

    def _on_write(self, seq, tid, text):
        self.oracle.on_write(seq, tid, text)
        self._window_sample()

    def do(self, t, op, top=False):
        o = self.oracle
        k = op[0]
        if k in ONE_PAYLOAD or k == "block":
            payloads = self._payloads(op)
            self.expected[t].extend(payloads)
            payload = "".join(payloads)
            if o is not None:
                rows = self.pristine.rows_of_bytes(payload)
                if o.hooked:
                    self.probes["hooked_prints"] += 1
                o.begin_op([k, TOKEN.findall(payload)[:1]], [("print", rows)])
                if o.tracker:
                    o.tracker.print_begin()
            self._emit(op, t)
            if o is not None:
                o.end_op()
        elif k == "capture":
            self._capture(t, op)
        elif k == "ioerr":
            # un-acknowledged output: a refused write may be lost (or come out later, once); a write
            # that was taken before the flush failed is in the file and must never come out again
            payloads = self._payloads(op[2])
            self.expected[t].extend(payloads)
            if op[1] == "write":
                self.optional.update(TOKEN.findall(p)[0] for p in payloads if TOKEN.findall(p))
            me = self.sim.me().tid
            self.file.armed[me] = op[1]
            try:
                self._emit(op[2], t)
            except OSError:
                self.probes["file_errors_caught"] = self.probes.get("file_errors_caught", 0) + 1
            finally:
                self.file.armed.pop(me, None)
        elif k == "drain":
            self.probes["draining_exports"] += 1
            if len(op) > 1 and op[1] == "save":
                from checks import c15 as _c15
                import rich.console as _rc

                _c15._CURRENT[0] = self
                _rc.open = _c15._fake_open
                self.nsaves += 1
                path = "sim://c11-t%d-%d.txt" % (self.sim.me().tid, self.nsaves)
                self.console.save_text(path, clear=True)
                self.drained.append(TOKEN.findall(self.save_files.pop(path).getvalue()))
            else:
                self.drained.append(TOKEN.findall(self.console.export_text(clear=True)))
        elif k == "dstart":
            self.probes["extra_starts"] += 1
            if o.tracker:
                o.tracker.start_event()
                o.tracker.print_begin()
            o.begin_op("start", [("frame",)], optional_frame=not (self.cfg["display"] == "progress"))
            self.display.start()
            if self.sim.me().tid not in o.pushed_by:
                o.stages = []  # it was already started: a no-op
            o.end_op()
        elif k == "dstop":
            self.probes["extra_stops"] += 1
            if o.tracker:
                o.tracker.stop_begin()
            o.begin_op("stop", [("final",), ("erase",) if self.cfg["transient"] else ("freeze",)])
            try:
                self.display.stop()
            finally:
                if self.sim.me().tid not in o.popped_by:
                    o.stages = []  # it was not running: a no-op
                o.end_op()
                if o.tracker:
                    o.tracker.stop_end()
        elif k == "sleep":
            if o is not None:
                o.begin_op(op, [])
            self.sim.sleep(op[1])
            if o is not None:
                o.end_op()
        elif k == "refresh":
            o.begin_op(op, [("frame",)])
            if o.tracker:
                o.tracker.print_begin()
            self.display.refresh()
            o.end_op()
        elif k == "update":
            u = [op[1], self.sim.event("inv-update"), None]
            self.updates.append(u)
            o.begin_op(["update", op[2]], [("frame",)] if op[2] else [])
            if o.tracker and op[2]:
                o.tracker.print_begin()
            self.display.update(build(op[1]), refresh=op[2])
            u[2] = self.sim.event("ret-update")
            o.end_op()
        elif k == "advance":
            o.begin_op(op, [])
            self.display.advance(self.ids[op[1]], op[2])
            o.end_op()
        elif k == "vis":
            v = [op[1], op[2], self.sim.event("inv-vis"), None]
            self.vis_ops.append(v)
            o.begin_op(op, [("frame",)] if op[3] else [])
            if o.tracker and op[3]:
                o.tracker.print_begin()
            self.display.update(self.ids[op[1]], visible=op[2], refresh=op[3])
            v[3] = self.sim.event("ret-vis")
            o.end_op()
        else:
            raise ValueError(k)

    def _v(self, oracle, sig, msg):
        self.viol.append({"oracle": oracle, "sig": sig, "msg": msg, "seq": self.sim.seq})

    # -- end of run ------------------------------------------------------------
    def _post(self):
        """Runs in the last client thread to finish, once every client is done."""
        o = self.oracle
        if o is None:
            return
        if not o.scr.cursor_visible:
            self._v("cleanup", "cursor-hidden-after-exit", "cursor hidden after every thread finished")
        if sys.stdout is not self.stdout_sentinel or sys.stderr is not self.stderr_sentinel:
            self._v("cleanup", "stdio-not-restored", "stdout/stderr still redirected after every thread finished")
        from rich.text import Text

        n0 = len(self.file.writes)
        expect = self.pristine.bytes(lambda c: c.print(Text("ZZprobe")))
        o.stop_checks = True
        self.console.print(Text("ZZprobe"))
        got = [w[2] for w in self.file.writes[n0:]]
        if got != [expect]:
            self._v("cleanup", "hook-not-restored", "a print after the display stopped produced %r, expected [%r]" % ([g[:80] for g in got], expect))
        else:
            self.probes["post_probe_ok"] += 1

    def finish(self):
        sim = self.sim
        viols = []
        writes = [w for w in self.file.writes]
        self.probes["writes"] = len(writes)
        if sim.failure is None:
            self._check_payloads(writes)
            self._check_captures()
            self._check_record(writes)
        if self.oracle is not None and self.oracle.viol is not None:
            v = dict(self.oracle.viol)
            if (v["sig"] not in ("overlapping-critical-spans",) and self.phantom and "phantom-frame" in self.oracle.tags
                    and self.phantom_seq is not None and self.phantom_seq <= v.get("seq", self.phantom_seq)):
                v["sig"] = "phantom-frame"
            if v["sig"] == "overlapping-critical-spans":
                self.probes["overlap_explained"] += 1
            if v["sig"] == "phantom-frame":
                self.probes["phantom_explained"] += 1
            viols.append(v)
        viols.extend(self.viol)
        for t in sim.threads:
            if t.exc is not None:
                viols.append({"oracle": "exception", "sig": "exception:" + type(t.exc).__name__,
                              "msg": "%s died: %s" % (t.name, (t.tb or "")[-700:]), "seq": sim.seq})
        probes = dict(self.probes)
        if self.oracle is not None:
            probes.update({"o_" + k: v for k, v in self.oracle.probe.items()
                           if k not in ("frame_exact_screen_height", "frame_taller_than_screen", "relaxed_runs")})
        probes["lock_contended"] = sim.stats["lock_contended"]
        faults = {"timer_fired_by_choice": sim.stats["timer_fired_by_choice"], "preemptions": max(0, sim.switches - len(sim.threads)),
                  "file_write_refused": self.file.io_errors["write"], "file_flush_failed_after_write": self.file.io_errors["flush"]}
        return {"violations": viols, "faults": faults, "probes": probes, "nontrivial": sim.switches > len(sim.threads),
                "sample": {"kind": self.kind, "cfg": self.cfg, "threads": self.case["threads"]}}

    def _check_payloads(self, writes):
        """Oracle 1: every payload reaches the file exactly once, contiguously, inside one write,
        in per-thread order; no write carries payloads of two different threads."""
        if self.probes.get("_skip"):
            return
        all_text = [w[2] for w in writes]
        pos_by_thread = {}
        for t, plist in self.expected.items():
            last = (-1, -1)
            for p in plist:
                toks = TOKEN.findall(p)
                hits = [i for i, w in enumerate(all_text) if toks and toks[0] in w]
                if not hits and toks and toks[0] in self.optional:
                    continue
                if len(hits) != 1:
                    self._v("exactly-once", "payload-count", "payload %r of thread %d appears in %d writes (expected exactly 1)" % (p[:60], t, len(hits)))
                    return
                i = hits[0]
                j = all_text[i].find(p)
                if j < 0 or all_text[i].count(toks[0]) != p.count(toks[0]):
                    self._v("contiguity", "payload-torn", "payload %r of thread %d is not contiguous / intact in write #%d %r" % (p[:80], t, i, all_text[i][:200]))
                    return
                if (i, j) <= last:
                    self._v("order", "payload-order", "payloads of thread %d reached the file out of program order" % t)
                    return
                last = (i, j)
                pos_by_thread.setdefault(i, set()).add(t)
        for i, ts in pos_by_thread.items():
            if len(ts) > 1:
                self._v("contiguity", "write-mixes-threads", "write #%d carries print output of threads %s: %r" % (i, sorted(ts), all_text[i][:200]))
                return
        for tok in self.captured_tokens:
            if any(tok in w for w in all_text):
                self._v("capture", "capture-leaked-to-file", "captured token %s reached the file" % tok)
                return

    def _check_captures(self):
        for t, exp, got in self.captures:
            if self.oracle is not None:
                # with a live hook the capture also holds the frame (known finding F7); the
                # captured payload itself must still be there, intact and alone
                if exp not in got or set(TOKEN.findall(got)) - set(TOKEN.findall(exp)):
                    self._v("capture", "capture-wrong", "capture of thread %d returned %r, expected to contain %r and no other thread's output" % (t, got[:160], exp[:160]))
                    return
            elif got != exp:
                self._v("capture", "capture-wrong", "capture of thread %d returned %r, expected %r" % (t, got[:200], exp[:200]))
                return

    def _check_record(self, writes):
        """Oracle 3: the recorded copy has the same order as the file."""
        if not self.cfg["record"]:
            return
        self.probes["record_compared"] += 1
        rec = self.console.export_text(clear=False)
        file_tokens = TOKEN.findall(term.visible_text("".join(w[2] for w in writes)))
        rec_tokens = [x for x in TOKEN.findall(rec) if x not in self.captured_tokens]
        if self.drained:
            # clearing exports were taken along the way: every piece of output must be in exactly
            # one of them (or in what is left now), each export in file order
            pos = {x: i for i, x in enumerate(file_tokens)}
            parts = self.drained + [rec_tokens]
            got = [x for part in parts for x in part if x not in self.captured_tokens]
            if sorted(got) != sorted(file_tokens):
                lost = [x for x in file_tokens if x not in got]
                dup = sorted(set(x for x in got if got.count(x) > 1))
                self._v("record-order", "record-lost-or-duplicated", "clearing exports taken while threads print do not add up to the file: lost %r, duplicated %r" % (lost[:10], dup[:10]))
                return
            for part in parts:
                idx = [pos[x] for x in part if x in pos]
                if idx != sorted(idx):
                    self._v("record-order", "record-order", "an export lists output in another order than the file: %r" % part[:12])
                    return
            return
        if rec_tokens != file_tokens:
            self._v("record-order", "record-order", "record order %r differs from file order %r" % (rec_tokens[:30], file_tokens[:30]))


C11.rule = ("cases drawn from VERIF_SEED: configuration A (no display; print/log/nested buffers/capture), B (display, other threads never write), "
            "C (display, unrestricted; 20% of them restart storms, each also run under 6/16 race-directed plans), 2-4 threads x <=4/6 operations each, one seeded schedule per case (random walk / PCT / single pre-emption / race-directed: a check-then-act place from a dry run, the storing thread held at an operation boundary; "
            "bytecode-level pre-emption in 50% of the runs); non-trivial = at least one pre-emptive context switch happened; distinct = distinct "
            "(case, switch-signature)")
C11.components_real = ["rich.console (thread-local buffers, _lock, _record_buffer_lock, capture, export_text)", "rich.live", "rich.live_render",
                       "rich.progress", "rich.file_proxy", "renderers"]
C11.components_stub = ["threading.RLock/Event -> dsim", "OS scheduler -> seeded baton passing at instruction events", "file -> SimFile", "clock -> SimClock"]
C11.assumptions = ["pre-emption at line boundaries of the shared-state modules, at bytecode boundaries per run knob; other modules atomic",
                   "payloads are compared with pristine renders by a second console (layout trusted, routing/ordering not)",
                   "sampled schedules: a clean batch is evidence, not proof",
                   "known findings F6 (a failing write whose critical span overlaps another thread's write / hook push-pop / start-stop event, or lies inside another thread's open span, AND at least one of the two operations is a print/log -- every other writing operation holds the display lock from hook evaluation to write) and F7 (a print inside capture() while the hook is installed and the frame height differs from the one on screen) suppress only violations for which their predicate holds"]
CHECK = C11()
